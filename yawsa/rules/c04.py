"""C04 — correlation estimators and the n(z) formula are applied as documented.

R1 the return expressions of the estimators, the n(z) formula and the normalisations are
   algebraically equal (polynomial/rational normal form) to the documented formulas on every
   None-default path.
R2 the estimator is selected exactly by the presence of RR; counts are passed by kind.
R3 twin path: value and jackknife samples are computed by the same formula (shared with C03.R1).
R4 autocorrelation normalisation: upper triangle with halved diagonal.
"""

from __future__ import annotations

import ast
import re

from ..dataflow import all_def_values, depends_on
from ..effects import Unknown, ceval
from ..model import AnalysisError, FuncInfo, dotted, norm_stmt, unparse, walk_no_nested
from ..norm import NotAffine, Rational, _atom, _const, poly, sym_exec
from .common import QUICK, calls_in, kwarg

EXPLANATION = (
    "Static canonicalisation on /repo's current source (no evaluation of numbers): the return expressions of "
    "landy_szalay / davis_peebles are symbolically evaluated along every path through their None-defaults and "
    "brought into a polynomial/rational normal form, which must equal the normal form of (DD-DR-RD+RR)/RR (RD:=DR when "
    "absent), DD/DR-1 and DD/RD-1; RedshiftData.from_corrdata must normalise to w_sp / sqrt(dz^2 w_ss w_pp) with the "
    "absent autocorrelations bound to the constant 1 (atoms are named by provenance, not by variable name); "
    "normalised() must have the shape X / nansum(dz X) for one and the same X; NormalisedCounts.sample_patch_sum "
    "must be counts / sum_weights. Any algebraically equivalent rewrite passes. R3 compares the expression that "
    "produces `samples` with the one that produces `data` under the def-use renaming data<->samples at every "
    "(data, samples) construction site. The identity sum(upper triangle) = 1/2 (sum w)^2 is NOT decided."
)
ASSUMPTIONS = [
    "commutative-ring identities of +, -, *, / on numpy arrays (broadcasting helpers tile/reshape/newaxis are transparent)",
    "sqrt and nansum are uninterpreted functions of their canonical argument",
]


def _paths(fn: ast.FunctionDef, rename=None):
    try:
        return list(sym_exec(fn.body, rename=rename))
    except NotAffine as err:
        raise AnalysisError(f"C04: cannot symbolically evaluate {fn.name} ({err})")


def _R(txt: str) -> Rational:
    return poly(ast.parse(txt, mode="eval").body)


def _truth(conds, env) -> bool:
    """is this path taken under the partial environment (names None / 'SOME')?"""
    for t, pol in conds:
        try:
            v = bool(ceval(ast.parse(t, mode="eval").body, env))
        except Unknown:
            continue
        if v != pol:
            return False
    return True


def rule_r1(prog, res) -> None:
    """formula normal forms"""
    from ..norm import _poly_env, uf_atom, uf_inner

    ls, dp = prog.func("landy_szalay"), prog.func("davis_peebles")
    cases = [
        (ls, {"rd": None}, "(dd - dr - dr + rr) / rr", "LS without RD: (DD - 2 DR + RR)/RR"),
        (ls, {"rd": "SOME"}, "(dd - dr - rd + rr) / rr", "LS: (DD - DR - RD + RR)/RR"),
        (dp, {"rd": None, "dr": "SOME"}, "dd / dr - 1", "DP: DD/DR - 1"),
        (dp, {"rd": "SOME", "dr": None}, "dd / rd - 1", "DP: DD/RD - 1"),
        (dp, {"rd": "SOME", "dr": "SOME"}, "dd / rd - 1", "DP with both: DD/RD - 1"),
    ]
    for f, env, want, label in cases:
        res.touch(f)
        got = None
        for conds, e, ret in _paths(f.node):
            if ret is None or not _truth(conds, env):
                continue
            got = _poly_env(ret, e, lambda t: t)
        if got is None:
            res.violation("C04.R1", f, f.node, f"{label}: no return path for {env}", key_extra=f"{f.name}-{label[:12]}-nopath")
        elif got.equals(_R(want)):
            res.ok("C04.R1", res.site(f, label), f"normal form equals {want}")
        else:
            res.violation("C04.R1", f, f.node, f"{label}: the returned expression normalises to {got.canon()}, documented is {want}", key_extra=f"{f.name}-{'-'.join(f'{k}{v}' for k, v in env.items())}")
    # n(z) from correlation data: atoms named by provenance
    fc = prog.func("RedshiftData.from_corrdata")
    res.touch(fc)
    fn = fc.node
    params = fc.param_names()[1:4]
    cross, ref, unk = params

    def role(text: str) -> str:
        try:
            e = ast.parse(text, mode="eval").body
        except SyntaxError:
            return text
        def dep(pname):
            return depends_on(fn, e, lambda y: isinstance(y, ast.Name) and y.id == pname)
        if isinstance(e, ast.Name):
            vals = [v for v in all_def_values(fn, e.id) if v is not None]
            roles = set()
            ones = 0
            for v in vals:
                if isinstance(v, ast.Call) and v.args and isinstance(v.args[0], ast.Constant) and v.args[0].value == 1.0:
                    ones += 1
                elif isinstance(v, ast.Constant) and v.value == 1.0:
                    ones += 1
                else:
                    roles.add(role(unparse(v)))
            if len(roles) == 1:
                return roles.pop()
        if re.search(r"\.dz\b", text) and dep(cross):
            return "DZ"
        for pname, r in ((ref, "SS"), (unk, "PP"), (cross, "SP")):
            if dep(pname) and re.search(r"\.(data|samples)$", text):
                return r
        return text

    ctor = [c for c in calls_in(fc) if isinstance(c.func, ast.Name) and c.func.id == "cls"]
    if len(ctor) != 1 or len(ctor[0].args) < 3:
        raise AnalysisError("C04.R1: RedshiftData.from_corrdata construction not recognised")
    want = Rational(_atom("SP")) / Rational(uf_atom("sqrt", Rational(_atom("DZ")) * Rational(_atom("DZ")) * Rational(_atom("SS")) * Rational(_atom("PP"))))
    resolver = lambda n: (lambda vals: vals[0] if len(vals) == 1 else None)([v for v in all_def_values(fn, n) if v is not None])  # noqa: E731
    for which, arg in (("value", ctor[0].args[1]), ("samples", ctor[0].args[2])):
        got = poly(arg, resolver, role)
        if got.equals(want):
            res.ok("C04.R1", res.site(fc, f"n(z) {which}"), "normalises to w_sp / sqrt(dz^2 * w_ss * w_pp)")
        else:
            res.violation("C04.R1", fc, arg, f"n(z) {which} normalises to {got.canon()}, documented is w_sp / sqrt(dz^2 w_ss w_pp)", key_extra=f"nz-formula-{which}")
    # absent autocorrelations are the constant 1
    ones_ok = True
    for pname in (ref, unk):
        for x in walk_no_nested(fn):
            if isinstance(x, ast.If) and isinstance(x.test, ast.Compare) and unparse(x.test) == f"{pname} is None":
                for st in x.body:
                    if isinstance(st, ast.Assign):
                        v = st.value
                        c = v.args[0] if isinstance(v, ast.Call) and v.args else v
                        if not (isinstance(c, ast.Constant) and c.value == 1.0):
                            ones_ok = False
    if ones_ok:
        res.ok("C04.R1", res.site(fc, "absent autocorrelations"), "bound to the constant 1 for value and samples")
    else:
        res.violation("C04.R1", fc, fn, "an absent autocorrelation is not replaced by 1", key_extra="nz-absent-not-one")
    # normalised(): X / nansum(dz * X)
    for cname in ("HistData", "RedshiftData"):
        m = prog.func(f"{cname}.normalised")
        res.touch(m)
        found = False
        for conds, env, ret in _paths(m.node, rename=lambda t: "DZ" if t in ("self.binning.dz", "dz") else t):
            if ret is None:
                continue
            if any("target" in t and not pol for t, pol in conds):
                continue  # fit to a target distribution: relative normalisation, not this formula
            c = [x for x in ast.walk(ret) if isinstance(x, ast.Call)]
            if not c or len(c[0].args) < 3:
                continue
            from ..norm import _poly_env as PE

            ren = lambda t: "DZ" if t in ("self.binning.dz", "dz") else t  # noqa: E731
            d, s = PE(c[0].args[1], env, ren), PE(c[0].args[2], env, ren)
            found = True
            for which, val, atom in (("value", d, "self.data"), ("samples", s, "self.samples")):
                # val must be X / nansum[DZ * X_data] with X built from `atom`
                num, den = val.num, val.den
                ns = [a for m_ in list(num) + list(den) for a, _ in m_ if a.startswith("nansum#")]
                if len(set(ns)) != 1:
                    res.violation("C04.R1", m, ret, f"{cname}.normalised ({which}) is not of the form X / nansum(dz X): {val.canon()}", key_extra=f"{cname}-normalised-shape-{which}")
                    continue
                nsum = ns[0]
                Xd = d * Rational(_atom(nsum))
                inner = uf_inner(nsum)
                # the value itself must be X / nansum, i.e. multiplying by nansum removes it
                X = val * Rational(_atom(nsum))
                free = X.equals(Rational({k: v for k, v in X.num.items() if not any(a == nsum for a, _ in k)}, {k: v for k, v in X.den.items() if not any(a == nsum for a, _ in k)})) if X.num else False
                if inner is not None and inner.equals(Rational(_atom("DZ")) * Xd) and d.den and any(any(a == nsum for a, _ in k) for k in d.den):
                    res.ok("C04.R1", res.site(m, f"normalised {which}"), "X / nansum(dz * X_value): the integral over the binning is 1")
                else:
                    res.violation("C04.R1", m, ret, f"{cname}.normalised ({which}): the norm is {nsum}, expected nansum of dz times the un-normalised value", key_extra=f"{cname}-normalised-norm-{which}")
        if not found:
            raise AnalysisError(f"C04.R1: {cname}.normalised return not recognised")
    # NormalisedCounts.sample_patch_sum = counts / sum_weights
    sp = prog.func("NormalisedCounts.sample_patch_sum")
    res.touch(sp)
    ok = False
    for conds, env, ret in _paths(sp.node):
        if ret is None:
            continue
        c = [x for x in ast.walk(ret) if isinstance(x, ast.Call)][0]
        from ..norm import _poly_env as PE

        d, s = PE(c.args[1], env, lambda t: t), PE(c.args[2], env, lambda t: t)
        if d.equals(_R("counts.data / sum_weights.data")) and s.equals(_R("counts.samples / sum_weights.samples")):
            ok = True
    cdef = [v for v in all_def_values(sp.node, "counts") if v is not None]
    wdef = [v for v in all_def_values(sp.node, "sum_weights") if v is not None]
    src_ok = len(cdef) == 1 and "self.counts.sample_patch_sum" in unparse(cdef[0]) and len(wdef) == 1 and "self.sum_weights.sample_patch_sum" in unparse(wdef[0])
    if ok and src_ok:
        res.ok("C04.R1", res.site(sp), "normalised counts = resampled pair counts / resampled product of weight sums")
    else:
        res.violation("C04.R1", sp, sp.node, "normalised pair counts are not (sum of counts) / (sum of weight products) for value and samples", key_extra="normalised-counts-formula")


def rule_r2(prog, res) -> None:
    """estimator selection and keyword passing"""
    sm = prog.func("CorrFunc.sample")
    res.touch(sm)
    sel = [x for x in walk_no_nested(sm.node) if isinstance(x, ast.Assign) and isinstance(x.value, ast.IfExp) and any(isinstance(t, ast.Name) and t.id == "estimator" for t in x.targets)]
    if len(sel) != 1:
        raise AnalysisError("C04.R2: estimator selection not recognised")
    ife = sel[0].value
    attrs = {unparse(x) for x in ast.walk(ife.test) if isinstance(x, ast.Attribute)}
    if attrs != {"self.rr"}:
        res.violation("C04.R2", sm, sel[0], f"the estimator is selected by {sorted(attrs)}, not by the presence of the random-random counts alone", key_extra="estimator-selection-criterion")
        return
    try:
        with_rr = ceval(ife.test, {"self.rr": "SOME"})
        without = ceval(ife.test, {"self.rr": None})
    except Unknown:
        raise AnalysisError("C04.R2: cannot evaluate the estimator selection test")
    pick = lambda v: unparse(ife.body if v else ife.orelse)  # noqa: E731
    if pick(with_rr) == "landy_szalay" and pick(without) == "davis_peebles":
        res.ok("C04.R2", res.site(sm, "estimator"), "Landy-Szalay exactly when random-random counts exist, Davis-Peebles otherwise")
    else:
        res.violation("C04.R2", sm, sel[0], f"with RR the estimator is {pick(with_rr)}, without RR it is {pick(without)}", key_extra="estimator-selection")
    # counts are collected per kind under their own key and passed by keyword
    loops = [x for x in walk_no_nested(sm.node) if isinstance(x, ast.For) and "to_dict" in unparse(x.iter)]
    ok = False
    for lp in loops:
        if isinstance(lp.target, ast.Tuple):
            k = lp.target.elts[0].id
            st = [s for s in lp.body if isinstance(s, ast.Assign) and isinstance(s.targets[0], ast.Subscript)]
            if len(st) >= 2 and all(isinstance(s.targets[0].slice, ast.Name) and s.targets[0].slice.id == k for s in st):
                ok = True
    est_calls = [c for c in calls_in(sm) if isinstance(c.func, ast.Name) and c.func.id == "estimator"]
    star = all(len(c.keywords) == 1 and c.keywords[0].arg is None and not c.args for c in est_calls)
    if ok and len(est_calls) == 2 and star:
        res.ok("C04.R2", res.site(sm, "keywords"), "pair counts are stored under their kind (dd/dr/rd/rr) and handed to the estimator by keyword")
    else:
        res.violation("C04.R2", sm, sm.node, "pair counts are not handed to the estimator by their kind", key_extra="estimator-keywords")
    # estimator signatures accept exactly the kinds that can occur
    for f, need in ((prog.func("landy_szalay"), {"dd", "dr", "rd", "rr"}), (prog.func("davis_peebles"), {"dd", "dr", "rd"})):
        kw = {a.arg for a in f.node.args.kwonlyargs}
        if kw == need:
            res.ok("C04.R2", res.site(f, "signature"), f"accepts {sorted(kw)}")
        else:
            res.violation("C04.R2", f, f.node, f"{f.name} accepts {sorted(kw)}, needed {sorted(need)}", key_extra=f"{f.name}-signature")


TWIN_RENAMES = [(r"\.samples\b", ".data"), (r"_samples\b", "_data"), (r"_samp\b", "_data"), (r"\bsamples\b", "data"), (r"counts_samples", "counts_values"), (r"counts_data", "counts_values")]


def _twin_norm(text: str) -> str:
    if "(" in text:
        return text
    for a, b in TWIN_RENAMES:
        text = re.sub(a, b, text)
    return text


def twin_path(prog, res, rule: str) -> int:
    """value and samples are produced by the same formula at every construction site"""
    from ..norm import _poly_env as PE

    n = 0
    targets = {"SampledData", "CorrData", "RedshiftData", "HistData"}
    for fi in prog.funcs:
        if not fi.module.name.startswith(("yaw.correlation", "yaw.redshifts")):
            continue
        for c in calls_in(fi):
            f = c.func
            is_ctor = False
            if isinstance(f, ast.Name) and (f.id in targets or (f.id == "cls" and fi.cls is not None and fi.cls.name in targets)):
                is_ctor = True
            if isinstance(f, ast.Call) and isinstance(f.func, ast.Name) and f.func.id == "type" and fi.cls is not None and (fi.cls.name in targets or any(getattr(b, "name", "") in targets for b in prog.mro(fi.cls))):
                is_ctor = True
            if not is_ctor or len(c.args) < 3:
                continue
            d_arg, s_arg = c.args[1], c.args[2]
            seen_twin = []

            def _twin_norm(text: str, seen_twin=seen_twin) -> str:  # noqa: F811 (records whether a samples-atom occurs)
                out = text
                if "(" in text:
                    return text  # an opaque call (e.g. a loader) is a source, not a renamed twin
                for a, b in TWIN_RENAMES:
                    out = re.sub(a, b, out)
                if out != text:
                    seen_twin.append(text)
                return out

            try:
                paths = list(sym_exec(fi.node.body, rename=_twin_norm))
            except NotAffine:
                paths = []
            # a twin site transforms the samples of another container; sources of samples (resampling, loading) are not
            probe = poly(s_arg, lambda nm: (lambda vals: vals[0] if len(vals) == 1 else None)([v for v in all_def_values(fi.node, nm) if v is not None]), _twin_norm)
            if paths:
                for conds, env, ret in paths:
                    if ret is not None and any(y is c for y in ast.walk(ret)):
                        PE(s_arg, env, _twin_norm)
            if not seen_twin and fi.qualname != "CorrFunc.sample":
                res.ok(rule, res.site(fi, norm_stmt(c)[:60]), "source of samples (resampling / loading), not a transformation of existing samples", nontrivial=False)
                continue
            n += 1
            res.touch(fi)
            done = False
            for conds, env, ret in paths:
                if ret is None or not any(y is c for y in ast.walk(ret)):
                    continue
                done = True
                from ..norm import atoms_of

                mixed = []
                for conds2, env2, ret2 in sym_exec(fi.node.body):
                    if conds2 == conds and ret2 is not None:
                        raw_atoms = atoms_of(PE(s_arg, env2, lambda t: t))
                        mixed = sorted(t for t in raw_atoms if "(" not in t and re.search(r"(\.data|_data|counts_values)$", t))
                d, s = PE(d_arg, env, _twin_norm), PE(s_arg, env, _twin_norm)
                if mixed:
                    res.violation(rule, fi, c, f"the jackknife samples are computed from the VALUE of {mixed} instead of its samples: the samples do not vary with the left-out patch in that term", key_extra=f"twin-mixed-{fi.qualname}")
                elif d.equals(s):
                    res.ok(rule, res.site(fi, norm_stmt(c)[:60]), "samples expression equals the value expression under data<->samples renaming")
                else:
                    res.violation(rule, fi, c, f"jackknife samples are computed as {s.canon()[:120]} but the value as {d.canon()[:120]}: value and samples follow different formulas", key_extra=f"twin-{fi.qualname}")
            if not done:
                # construction not in a return / function has loops: compare the two argument expressions directly
                resolver = lambda nm: (lambda vals: vals[0] if len(vals) == 1 else None)([v for v in all_def_values(fi.node, nm) if v is not None])  # noqa: E731
                if fi.qualname == "CorrFunc.sample":
                    def _twin_norm(text: str) -> str:  # noqa: F811  (plain textual renaming for this call-shaped site)
                        for a_, b_ in TWIN_RENAMES:
                            text = re.sub(a_, b_, text)
                        return text

                    dd = [v for v in all_def_values(fi.node, d_arg.id)] if isinstance(d_arg, ast.Name) else []
                    ss = [v for v in all_def_values(fi.node, s_arg.id)] if isinstance(s_arg, ast.Name) else []
                    same = len(dd) == 1 and len(ss) == 1 and _twin_norm(unparse(dd[0])) == _twin_norm(unparse(ss[0])) and "samples" in unparse(ss[0]) and "samples" not in unparse(dd[0])
                    fill = [x for x in walk_no_nested(fi.node) if isinstance(x, ast.Assign) and isinstance(x.targets[0], ast.Subscript) and isinstance(x.targets[0].value, ast.Name) and x.targets[0].value.id.startswith("counts_")]
                    pair = {x.targets[0].value.id: unparse(x.value) for x in fill}
                    srcs_ok = pair.get("counts_values", "").endswith(".data") and pair.get("counts_samples", "").endswith(".samples") and _twin_norm(pair["counts_samples"]) == _twin_norm(pair["counts_values"])
                    if same and srcs_ok:
                        res.ok(rule, res.site(fi, "estimator(**values) / estimator(**samples)"), "the same estimator is applied to the values and to the samples of the same resampled counts")
                    else:
                        res.violation(rule, fi, c, "value and samples are not produced by the same estimator call on the same resampled counts", key_extra="twin-CorrFunc.sample")
                    continue
                d, s = poly(d_arg, resolver, _twin_norm), poly(s_arg, resolver, _twin_norm)
                if d.equals(s):
                    res.ok(rule, res.site(fi, norm_stmt(c)[:60]), "samples expression equals the value expression under data<->samples renaming")
                else:
                    res.violation(rule, fi, c, f"jackknife samples are computed as {s.canon()[:120]} but the value as {d.canon()[:120]}", key_extra=f"twin-{fi.qualname}")
    return n


def rule_r3(prog, res) -> None:
    """twin path: value and samples computed identically"""
    n = twin_path(prog, res, "C04.R3")
    if n < 6:
        raise AnalysisError(f"C04.R3: only {n} (data, samples) construction sites found, minimum 6")


def rule_r4(prog, res) -> None:
    """autocorrelation normalisation: upper triangle, halved diagonal"""
    ga = prog.func("PatchedSumWeights.get_array")
    res.touch(ga)
    fn = ga.node
    first = [x for x in walk_no_nested(fn) if isinstance(x, ast.Assign) and isinstance(x.value, ast.Call) and (dotted(x.value.func) or "").endswith("einsum")]
    if not first or not (isinstance(first[0].value.args[0], ast.Constant) and first[0].value.args[0].value.replace(" ", "") == "bi,bj->bij"):
        res.violation("C04.R4", ga, fn, "weight products are not the outer product bi,bj->bij of the two weight-sum arrays", key_extra="outer-product")
    else:
        ops = [unparse(a) for a in first[0].value.args[1:]]
        if ops == ["self.sum_weights1", "self.sum_weights2"]:
            res.ok("C04.R4", res.site(ga, "outer product"), "array[b, i, j] = sum_weights1[b, i] * sum_weights2[b, j]")
        else:
            res.violation("C04.R4", ga, first[0], f"outer product is built from {ops}", key_extra="outer-product-operands")
    autos = [x for x in walk_no_nested(fn) if isinstance(x, ast.If) and unparse(x.test) == "self.auto"]
    if len(autos) != 1:
        raise AnalysisError("C04.R4: `if self.auto` block of get_array not recognised")
    body = autos[0].body
    tri = [c for st in body for c in ast.walk(st) if isinstance(c, ast.Call) and (dotted(c.func) or "").split(".")[-1] in ("triu", "tril")]
    half = [st for st in body if isinstance(st, ast.AugAssign) and isinstance(st.op, (ast.Mult, ast.Div))]
    ok_tri = len(tri) == 1 and (dotted(tri[0].func) or "").endswith("triu") and not tri[0].keywords and len(tri[0].args) == 1
    ok_half = False
    if len(half) == 1:
        v = half[0].value
        fac = v.value if isinstance(v, ast.Constant) else None
        if fac is not None:
            fac = fac if isinstance(half[0].op, ast.Mult) else 1 / fac
        tgt = unparse(half[0].target).replace(" ", "")
        ok_half = fac == 0.5 and "bii->bi" in tgt
    if ok_tri and ok_half:
        res.ok("C04.R4", res.site(ga, "auto"), "upper triangle incl. diagonal, diagonal halved once: sum = 1/2 (sum w)^2 structure")
    else:
        res.violation("C04.R4", ga, autos[0], f"autocorrelation normalisation is not `upper triangle with the diagonal halved` (triu={ok_tri}, diagonal*0.5={ok_half})", key_extra="auto-normalisation")


RULES = [
    ("C04.R1", rule_r1, QUICK),
    ("C04.R2", rule_r2, QUICK),
    ("C04.R3", rule_r3, QUICK),
    ("C04.R4", rule_r4, QUICK),
]
