"""Key-set abstract interpretation for the to_dict / from_dict / modify protocols.

Abstract dict = {key: kind} with kind in {"none", "some", "unknown"}; control flow forks
("arms").  Producers are interpreted to the dicts they return / hand to from_dict, consumers
are interpreted on such a dict and every `cls(..., **d)` / `create(**d)` / `d.pop(k)` is
checked against the callee signature resp. the produced keys."""

from __future__ import annotations

import ast
from dataclasses import dataclass, field

from .effects import Unknown
from .model import AnalysisError, ClassInfo, FuncInfo, Program, dotted, unparse, walk_no_nested
from .totality import _signature, concrete_subclasses


@dataclass
class AD:
    keys: dict = field(default_factory=dict)  # key -> kind
    open: bool = False  # may contain further unknown keys

    def copy(self) -> "AD":
        return AD(dict(self.keys), self.open)

    def __repr__(self) -> str:
        return "{" + ", ".join(f"{k}:{v}" for k, v in self.keys.items()) + (", …" if self.open else "") + "}"


@dataclass
class Problem:
    node: ast.AST
    func: FuncInfo
    message: str
    key: str


class DictInterp:
    """Interprets one function; `on_call(call, env, self)` is invoked for every call so that
    the client can follow from_dict / constructor calls."""

    MAX_ARMS = 64

    def __init__(self, prog: Program, fi: FuncInfo, recv_cls: ClassInfo | None = None) -> None:
        self.prog, self.fi = prog, fi
        self.recv_cls = recv_cls or fi.cls
        self.problems: list[Problem] = []
        self.returns: list[tuple[list, object]] = []  # (conds, value)
        self.calls: list[tuple[ast.Call, dict, list]] = []  # (call, env, conds)

    # -- abstract values ------------------------------------------------------------
    def kind_of(self, e: ast.AST, env: dict) -> str:
        if isinstance(e, ast.Constant):
            return "none" if e.value is None else "some"
        if isinstance(e, ast.Name):
            v = env.get(e.id)
            if isinstance(v, str) and v in ("none", "some", "unknown", "notset"):
                return v
            if e.id == "NotSet":
                return "notset"
            return "unknown"
        if isinstance(e, ast.IfExp):
            t = self.truth(e.test, env)
            if t is True:
                return self.kind_of(e.body, env)
            if t is False:
                return self.kind_of(e.orelse, env)
            a, b = self.kind_of(e.body, env), self.kind_of(e.orelse, env)
            return a if a == b else "unknown"
        if isinstance(e, ast.Call):
            fn = (dotted(e.func) or "").split(".")[-1]
            if fn in ("str", "int", "float", "list", "dict", "tuple", "Closed", "BinMethod", "Unit"):
                return "some"
            if isinstance(e.func, ast.Attribute) and e.func.attr in ("tolist", "to_dict", "copy"):
                return "some"
            if isinstance(e.func, ast.Attribute) and e.func.attr in ("get", "pop") and isinstance(e.func.value, ast.Name):
                d = env.get(e.func.value.id)
                if isinstance(d, AD) and e.args and isinstance(e.args[0], ast.Constant):
                    k = e.args[0].value
                    if k in d.keys:
                        return d.keys[k]
                    if not d.open and len(e.args) > 1:
                        return self.kind_of(e.args[1], env)
            return "unknown"
        if isinstance(e, (ast.List, ast.Tuple, ast.Dict, ast.JoinedStr, ast.ListComp, ast.DictComp)):
            return "some"
        if isinstance(e, ast.Subscript) and isinstance(e.value, ast.Name) and isinstance(env.get(e.value.id), AD) and isinstance(e.slice, ast.Constant):
            d = env[e.value.id]
            return d.keys.get(e.slice.value, "unknown")
        return "unknown"

    def truth(self, t: ast.AST, env: dict):
        """three-valued evaluation of a condition: True / False / None"""
        if isinstance(t, ast.Constant):
            return bool(t.value)
        if isinstance(t, ast.UnaryOp) and isinstance(t.op, ast.Not):
            v = self.truth(t.operand, env)
            return None if v is None else (not v)
        if isinstance(t, ast.BoolOp):
            vals = [self.truth(v, env) for v in t.values]
            if isinstance(t.op, ast.And):
                if any(v is False for v in vals):
                    return False
                return True if all(v is True for v in vals) else None
            if any(v is True for v in vals):
                return True
            return False if all(v is False for v in vals) else None
        if isinstance(t, ast.Compare) and len(t.ops) == 1:
            op, l, r = t.ops[0], t.left, t.comparators[0]
            lk, rk = self.kind_of(l, env), self.kind_of(r, env)
            if isinstance(op, (ast.Is, ast.IsNot)):
                res = None
                if rk == "none":
                    res = True if lk == "none" else False if lk in ("some", "notset") else None
                elif rk == "notset":
                    res = True if lk == "notset" else False if lk in ("some", "none") else None
                if res is None:
                    return None
                return res if isinstance(op, ast.Is) else (not res)
            if isinstance(op, (ast.Eq, ast.NotEq)):
                # value equality: only decided for none vs some
                if {lk, rk} == {"none", "some"}:
                    return isinstance(op, ast.NotEq)
                lv, rv = self.const_of(l, env), self.const_of(r, env)
                if lv is not None and rv is not None:
                    return (lv == rv) if isinstance(op, ast.Eq) else (lv != rv)
                if lv is None and rv is not None and rv in self.excluded(l, env):
                    return isinstance(op, ast.NotEq)
                return None
        if isinstance(t, ast.Name):
            v = env.get(t.id)
            if v is True or v is False:
                return v
            if v == "none" or v == "notset":
                return False
            return None
        if isinstance(t, ast.Call) and isinstance(t.func, ast.Name) and t.func.id in ("all", "any") and t.args and isinstance(t.args[0], ast.Name):
            v = env.get(t.args[0].id)
            if isinstance(v, tuple):
                vals = list(v)
                if t.func.id == "all":
                    return False if any(x is False for x in vals) else True if all(x is True for x in vals) else None
                return True if any(x is True for x in vals) else False if all(x is False for x in vals) else None
        return None

    def const_of(self, e: ast.AST, env: dict):
        if isinstance(e, ast.Constant) and isinstance(e.value, str):
            return e.value
        if isinstance(e, ast.Call) and isinstance(e.func, ast.Name) and e.func.id == "str" and len(e.args) == 1 and not e.keywords:
            return self.const_of(e.args[0], env)  # str(<StrEnum member>) is the member's value
        if isinstance(e, ast.Attribute) and (dotted(e) or "").count(".") == 1 and (dotted(e) or "")[0].isupper():
            return e.attr  # Enum member
        if isinstance(e, ast.Name):
            v = env.get("const:" + e.id)
            return v
        if isinstance(e, ast.Call) and isinstance(e.func, ast.Attribute) and e.func.attr == "get" and isinstance(e.func.value, ast.Name):
            d = env.get(e.func.value.id)
            if isinstance(d, AD) and e.args and isinstance(e.args[0], ast.Constant):
                return env.get(f"const:{e.func.value.id}[{e.args[0].value}]")
        if isinstance(e, ast.Subscript) and isinstance(e.value, ast.Name) and isinstance(e.slice, ast.Constant):
            return env.get(f"const:{e.value.id}[{e.slice.value}]")
        return None

    def excluded(self, e: ast.AST, env: dict) -> set:
        """constants the expression is known not to equal (learned from raising guards)"""
        if isinstance(e, ast.Call) and isinstance(e.func, ast.Name) and e.func.id == "str" and len(e.args) == 1 and not e.keywords:
            return self.excluded(e.args[0], env)
        if isinstance(e, ast.Name):
            return env.get("notconst:" + e.id, set())
        if isinstance(e, ast.Subscript) and isinstance(e.value, ast.Name) and isinstance(e.slice, ast.Constant):
            return env.get(f"notconst:{e.value.id}[{e.slice.value}]", set())
        if isinstance(e, ast.Call) and isinstance(e.func, ast.Attribute) and e.func.attr == "get" and isinstance(e.func.value, ast.Name) and e.args and isinstance(e.args[0], ast.Constant):
            return env.get(f"notconst:{e.func.value.id}[{e.args[0].value}]", set())
        return set()

    def dict_of(self, e: ast.AST, env: dict) -> AD | None:
        if isinstance(e, ast.Name) and isinstance(env.get(e.id), AD):
            return env[e.id]
        if isinstance(e, ast.Call):
            fn = dotted(e.func) or ""
            if fn == "dict" and not e.args:
                return AD({k.arg: self.kind_of(k.value, env) for k in e.keywords if k.arg})
            if fn == "dict" and len(e.args) == 1:
                d = self.dict_of(e.args[0], env)
                if d is None:
                    return None
                d = d.copy()
                for k in e.keywords:
                    if k.arg:
                        d.keys[k.arg] = self.kind_of(k.value, env)
                    else:
                        d.open = True
                return d
            if isinstance(e.func, ast.Attribute) and e.func.attr == "copy":
                d = self.dict_of(e.func.value, env)
                return d.copy() if d else None
            if isinstance(e.func, ast.Attribute) and e.func.attr == "to_dict":
                recv = e.func.value
                if isinstance(recv, ast.Name) and recv.id == "self" and self.recv_cls is not None:
                    td = self.prog.find_method(self.recv_cls, "to_dict")
                    if td is not None and not td.is_abstract:
                        arms = produce(self.prog, td, self.recv_cls)
                        env.setdefault("<fork>", []).append(arms)
                        return arms[0][1].copy() if arms else None
                return AD({}, True)
        if isinstance(e, ast.Dict) and all(isinstance(k, ast.Constant) for k in e.keys if k is not None) and all(k is not None for k in e.keys):
            return AD({k.value: self.kind_of(v, env) for k, v in zip(e.keys, e.values)})
        if isinstance(e, ast.DictComp) and len(e.generators) == 1:
            g = e.generators[0]
            src = g.iter
            lit = None
            if isinstance(src, ast.Name):
                v = env.get("tuple:" + src.id)
                lit = v
            elif isinstance(src, (ast.Tuple, ast.List)):
                lit = [x.value for x in src.elts if isinstance(x, ast.Constant)]
            elif isinstance(src, ast.Attribute) and src.attr == "__slots__" and self.recv_cls is not None:
                lit = list(self.prog.all_slots(self.recv_cls))
            elif isinstance(src, ast.Call) and isinstance(src.func, ast.Attribute) and src.func.attr == "items":
                d = self.dict_of(src.func.value, env)
                if d is not None:
                    out = AD({k: v for k, v in d.keys.items()}, d.open)
                    if g.ifs:
                        out.open = out.open  # filtered: keys are a subset
                        out.keys = {k: "some" for k in out.keys}
                        out.subset = True  # type: ignore[attr-defined]
                    return out
            if lit is not None and isinstance(e.key, ast.Name):
                out = AD({k: "unknown" for k in lit})
                if g.ifs:
                    out.keys = {k: "some" for k in lit}
                    out.subset = True  # type: ignore[attr-defined]
                return out
        return None

    # -- statements -----------------------------------------------------------------
    def run(self, env: dict | None = None) -> None:
        env = dict(env or {})
        self._block(self.fi.node.body, env, [])

    def _block(self, stmts, env, conds) -> bool:
        """returns False when the block always leaves (return/raise)"""
        for i, st in enumerate(stmts):
            if isinstance(st, ast.Expr):
                if isinstance(st.value, ast.Call):
                    self._call(st.value, env, conds)
                continue
            if isinstance(st, ast.Assign) and (len(st.targets) > 1 or (isinstance(st.targets[0], ast.Tuple) and isinstance(st.value, ast.Tuple) and len(st.targets[0].elts) == len(st.value.elts))):
                # a = b = v  /  a, b = v, w : as the equivalent sequence of single assignments
                pairs = []
                for t in st.targets:
                    if isinstance(t, ast.Tuple) and isinstance(st.value, ast.Tuple) and len(t.elts) == len(st.value.elts):
                        pairs.extend(zip(t.elts, st.value.elts))
                    else:
                        pairs.append((t, st.value))
                seq = [ast.copy_location(ast.Assign(targets=[t], value=v), st) for t, v in pairs]
                return self._block(seq + list(stmts[i + 1 :]), env, conds)
            if isinstance(st, ast.Assign) and len(st.targets) == 1:
                tgt, val = st.targets[0], st.value
                for c in [x for x in ast.walk(val) if isinstance(x, ast.Call)]:
                    self._call(c, env, conds, in_assign=True)
                if isinstance(tgt, ast.Name):
                    d = self.dict_of(val, env)
                    forks = env.pop("<fork>", None)
                    if forks and d is not None:
                        alive = False
                        for arms in forks:
                            for ac, ad in arms:
                                e2 = dict(env)
                                e2[tgt.id] = ad.copy()
                                for txt, pol in ac:
                                    e2["cond:" + txt] = pol
                                alive |= self._block(stmts[i + 1 :], e2, conds + [(f"to_dict arm {ac}", True)])
                        return alive
                    if d is not None:
                        env[tgt.id] = d
                        # values of a literal / keyword-constructed dict: what is known about them stays known per key
                        for k in [k for k in env if k.startswith((f"const:{tgt.id}[", f"notconst:{tgt.id}["))]:
                            del env[k]
                        items = []
                        if isinstance(val, ast.Call) and (dotted(val.func) or "") == "dict":
                            items = [(k.arg, k.value) for k in val.keywords if k.arg]
                        elif isinstance(val, ast.Dict):
                            items = [(k.value, v) for k, v in zip(val.keys, val.values) if isinstance(k, ast.Constant)]
                        for kname, v in items:
                            c = self.const_of(v, env)
                            if c is not None:
                                env[f"const:{tgt.id}[{kname}]"] = c
                            ex = self.excluded(v, env)
                            if ex:
                                env[f"notconst:{tgt.id}[{kname}]"] = set(ex)
                    elif isinstance(val, (ast.Tuple, ast.List)) and all(isinstance(x, ast.Constant) for x in val.elts):
                        env["tuple:" + tgt.id] = [x.value for x in val.elts]
                        env[tgt.id] = "some"
                    elif isinstance(val, ast.Tuple):
                        env[tgt.id] = tuple(self.truth(x, env) for x in val.elts)
                    elif isinstance(val, (ast.Compare, ast.BoolOp)) or (isinstance(val, ast.UnaryOp) and isinstance(val.op, ast.Not)):
                        env[tgt.id] = self.truth(val, env)
                        env["def:" + tgt.id] = val
                    else:
                        env[tgt.id] = self.kind_of(val, env)
                        c = self.const_of(val, env)
                        if c is not None:
                            env["const:" + tgt.id] = c
                        else:
                            env.pop("const:" + tgt.id, None)
                elif isinstance(tgt, ast.Subscript) and isinstance(tgt.value, ast.Name) and isinstance(env.get(tgt.value.id), AD) and isinstance(tgt.slice, ast.Constant):
                    d = env[tgt.value.id] = env[tgt.value.id].copy()
                    key = f"const:{tgt.value.id}[{tgt.slice.value}]"
                    same = isinstance(val, ast.Call) and isinstance(val.func, ast.Name) and val.func.id == "str" and val.args and unparse(val.args[0]) == unparse(tgt)
                    if same:
                        continue  # d[k] = str(d[k]): same value as far as this analysis is concerned
                    d.keys[tgt.slice.value] = self.kind_of(val, env)
                    c = self.const_of(val, env)
                    env.pop("not" + key, None)
                    if c is not None:
                        env[key] = c
                    else:
                        env.pop(key, None)
                    # remember exclusions like  d["method"] = self.method if … (unknown)
                continue
            if isinstance(st, ast.If):
                t = self.truth(st.test, env)
                alive = False
                if t is not False:
                    e2 = self._refine(dict(env), st.test, True)
                    if self._block(st.body + stmts[i + 1 :], e2, conds + [(unparse(st.test), True)]):
                        alive = True
                if t is not True:
                    e2 = self._refine(dict(env), st.test, False)
                    if self._block(st.orelse + stmts[i + 1 :], e2, conds + [(unparse(st.test), False)]):
                        alive = True
                return alive
            if isinstance(st, ast.Return):
                if st.value is not None:
                    for c in [x for x in ast.walk(st.value) if isinstance(x, ast.Call)]:
                        self._call(c, env, conds)
                    d = self.dict_of(st.value, env)
                    self.returns.append((list(conds), d if d is not None else st.value))
                return False
            if isinstance(st, ast.Raise):
                return False
            if isinstance(st, ast.Try):
                # body runs; handlers re-raise as ConfigError in this repo
                alive = self._block(st.body + stmts[i + 1 :], env, conds)
                return alive
            if isinstance(st, (ast.AnnAssign, ast.AugAssign, ast.Pass, ast.Assert, ast.For, ast.With, ast.While)):
                for c in [x for x in ast.walk(st) if isinstance(x, ast.Call)]:
                    self._call(c, env, conds)
                continue
        return True

    def _refine(self, env: dict, test: ast.AST, pol: bool) -> dict:
        """learn from `X is NotSet`, `d["k"] == C` (exclusion) on the taken branch"""
        if isinstance(test, ast.Name) and isinstance(env.get("def:" + test.id), ast.AST):
            env[test.id] = pol
            return self._refine(env, env["def:" + test.id], pol)
        if isinstance(test, ast.UnaryOp) and isinstance(test.op, ast.Not):
            return self._refine(env, test.operand, not pol)
        if isinstance(test, ast.BoolOp):
            if isinstance(test.op, ast.And) == pol:  # (a and b) true / (a or b) false: every member is decided
                for v in test.values:
                    env = self._refine(env, v, pol)
            return env
        if isinstance(test, ast.Compare) and len(test.ops) == 1:
            op, l, r = test.ops[0], test.left, test.comparators[0]
            if isinstance(l, ast.Name) and isinstance(op, (ast.Is, ast.IsNot)):
                rk = self.kind_of(r, env)
                same = isinstance(op, ast.Is) == pol
                if rk in ("notset", "none"):
                    if same:
                        env[l.id] = rk
                    elif env.get(l.id, "unknown") == "unknown":
                        env[l.id] = "some" if rk == "notset" else env.get(l.id, "unknown")
            if isinstance(op, (ast.Eq, ast.NotEq)):
                c = self.const_of(r, env)
                if c is not None:
                    eq_holds = isinstance(op, ast.Eq) == pol
                    key = None
                    if isinstance(l, ast.Name):
                        key = "const:" + l.id
                    elif isinstance(l, ast.Subscript) and isinstance(l.value, ast.Name) and isinstance(l.slice, ast.Constant):
                        key = f"const:{l.value.id}[{l.slice.value}]"
                    if key:
                        if eq_holds:
                            env[key] = c
                        else:
                            env["not" + key] = env.get("not" + key, set()) | {c}
        if isinstance(test, ast.Attribute) and isinstance(test.value, ast.Name) and test.value.id == "self":
            env["cond:self." + test.attr] = pol
        return env

    def _call(self, call: ast.Call, env: dict, conds: list, in_assign: bool = False) -> None:
        f = call.func
        # d.pop("k") / d.pop("k", default) / d.update(...)
        if isinstance(f, ast.Attribute) and isinstance(f.value, ast.Name) and isinstance(env.get(f.value.id), AD):
            d = env[f.value.id]
            if f.attr == "pop" and call.args and isinstance(call.args[0], ast.Constant):
                k = call.args[0].value
                if k not in d.keys and not d.open and len(call.args) == 1:
                    self.problems.append(Problem(call, self.fi, f"'{k}' is popped without default but is never produced on this path (keys: {sorted(d.keys)}): KeyError", f"pop-missing-{k}"))
                nd = d.copy()
                nd.keys.pop(k, None)
                env[f.value.id] = nd
                return
            if f.attr == "update" and call.args:
                other = self.dict_of(call.args[0], env)
                nd = d.copy()
                if other is not None:
                    if getattr(other, "subset", False):
                        for k in other.keys:
                            nd.keys[k] = "unknown" if k in nd.keys else "unknown"
                        extra = [k for k in other.keys if k not in d.keys]
                        nd.maybe = extra  # type: ignore[attr-defined]
                    else:
                        nd.keys.update(other.keys)
                    nd.open = nd.open or other.open
                else:
                    nd.open = True
                env[f.value.id] = nd
                return
        self.calls.append((call, dict(env), list(conds)))


def produce(prog: Program, fi: FuncInfo, recv_cls: ClassInfo | None = None):
    """[(conds, AD)] dicts returned by a producer such as to_dict"""
    it = DictInterp(prog, fi, recv_cls)
    it.run({})
    out = []
    for conds, v in it.returns:
        if isinstance(v, AD):
            cs = [(t, p) for t, p in conds if t.startswith("self.")]
            out.append((cs, v))
    if not out:
        raise AnalysisError(f"dictflow: cannot determine the keys returned by {fi.short}")
    return out


def accepted_params(prog: Program, target) -> tuple[set, bool, list]:
    """(names accepted by keyword, has **kwargs, required names)"""
    if isinstance(target, ClassInfo):
        init = prog.find_method(target, "__init__")
        if init is None:
            return set(), True, []
        sig = _signature(init, bound=True)
    else:
        sig = _signature(target, bound=target.cls is not None and not target.is_staticmethod)
    return set(sig["pos"]) | set(sig["kwonly"]), sig["kwarg"], sig["required_pos"] + sig["required_kw"]


def consume(prog: Program, fi: FuncInfo, param: str, ad: AD, recv_cls: ClassInfo, label: str, extra_env: dict | None = None, _depth: int = 0) -> list[Problem]:
    """interpret a consumer (from_dict) on an abstract dict; check **-expansions and pops"""
    it = DictInterp(prog, fi, recv_cls)
    env = {param: ad.copy()}
    env.update(extra_env or {})
    it.run(env)
    probs = list(it.problems)
    for call, cenv, conds in it.calls:
        star = [k for k in call.keywords if k.arg is None and isinstance(k.value, ast.Name) and isinstance(cenv.get(k.value.id), AD)]
        f = call.func
        # nested from_dict on a sub-dict is not followed (sub-dicts are separate protocols)
        if not star:
            continue
        d: AD = cenv[star[0].value.id]
        target = None
        if isinstance(f, ast.Name) and f.id == "cls":
            target = recv_cls
        elif isinstance(f, ast.Attribute) and isinstance(f.value, ast.Name) and f.value.id == "cls":
            target = prog.find_method(recv_cls, f.attr)
        else:
            tg = prog.resolve_call(fi, call)
            target = (tg.classes() or tg.funcs() or [None])[0]
        if target is None:
            continue
        names, has_kw, required = accepted_params(prog, target)
        tname = target.name if isinstance(target, ClassInfo) else target.qualname
        explicit = {k.arg for k in call.keywords if k.arg}
        npos = len(call.args)
        bad = [k for k in d.keys if k not in names and not has_kw]
        dup = [k for k in d.keys if k in explicit]
        if bad:
            probs.append(Problem(call, fi, f"{label}: keys {sorted(bad)} of the dictionary are passed to {tname}(), which does not accept them (path: {[c for c, _ in conds][-2:]})", f"unaccepted-{'-'.join(sorted(bad))}"))
        if dup:
            probs.append(Problem(call, fi, f"{label}: keys {sorted(dup)} are passed both explicitly and through **{star[0].value.id}", f"duplicate-{'-'.join(sorted(dup))}"))
    return probs
