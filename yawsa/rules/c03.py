"""C03 — jackknife sample k is the statistic with patch k left out (structural part).

R1 twin path: value and samples are computed by the same formula (shared engine with C04.R3).
R2 sample order is patch order: arrival-order taint on the histogram / pair-count accumulators (= C05.R1).
R3 leave-one-out sums: einsum axis roles and signs of total - row - column + diagonal.
R4 covariance: delete-one jackknife normalisation (N-1) * cov(ddof=0); error = sqrt(diag).
R5 histogram jackknife index construction, for the tile/delete/reshape idiom only: the deleted
   positions must be range*(N+1).  Another (unrecognised) construction is an analysis error, not a verdict.
"""

from __future__ import annotations

import ast

from ..dataflow import all_def_values, reaching_defs
from ..model import AnalysisError, FuncInfo, dotted, norm_stmt, unparse, walk_no_nested
from ..norm import NotAffine, Rational, _atom, affine, affine_eq, sym_exec, uf_atom, uf_inner
from . import c05
from .c04 import twin_path
from .common import QUICK, calls_in, kwarg, parents_map

EXPLANATION = (
    "Static analysis on /repo's current source. R1: at every site that builds a (value, samples) container from "
    "another one, the samples expression must be the value expression under the def-use renaming data<->samples. "
    "R2: the arrival-order taint analysis of C05.R1 applied to the accumulators whose row order becomes the sample "
    "order. R3: the leave-one-out construction in sample_patch_sum is brought to a normal form over uninterpreted "
    "einsum atoms and must equal  total - sum_over_first_patch_axis - sum_over_second_patch_axis + diagonal,  with "
    "every term typed (patch, bin). R4: the covariance is numpy.cov(ddof=0) times (N-1) with N the number of "
    "samples. The leave-one-out identity itself and the index construction of the histogram resampling are NOT decided."
    ' R4 further decides, on the symbolic return values: the kind dispatch (full / var / diag by an oracle on the kind parameter), the axis along which several sample sets are joined, NaN for a single sample, the raw-moment form of the covariance (reported as a cancellation hazard), and that the correlation matrix is of degree zero in the covariance (homogeneity typing).'
)
ASSUMPTIONS = [
    "einsum('bij->jb') sums over the first patch axis, 'bij->ib' over the second, 'bii->ib' extracts the diagonal, output typed (patch, bin)",
    "numpy.cov(x, ddof=0) is the biased sample covariance 1/N sum (x-mean)(x-mean)^T",
]


def rule_r1(prog, res) -> None:
    """twin path (value and samples by the same formula)"""
    n = twin_path(prog, res, "C03.R1")
    if n < 6:
        raise AnalysisError(f"C03.R1: only {n} (data, samples) construction sites found, minimum 6")


def rule_r2(prog, res) -> None:
    """sample order is patch order (arrival-order taint, shared with C05.R1)"""
    sub = type(res)("C05", prog, res.tier)
    c05.rule_r1(prog, sub)
    for o in sub.obligations:
        o.rule = "C03.R2"
        res.obligations.append(o)
        res.count("C03.R2")
    for f in sub.findings:
        f.prop, f.rule = "C03", "C03.R2"
        f.key = f.key.replace("C05.R1", "C03.R2", 1)
        res.findings.append(f)
    res.functions_analysed |= sub.functions_analysed


def rule_r3(prog, res) -> None:
    """leave-one-out sums: axis roles and signs"""
    from ..norm import _poly_env as PE

    sp = prog.func("BinwisePatchwiseArray.sample_patch_sum")
    res.touch(sp)
    from .. import symx

    spaths = [p for p in symx.explore(prog, sp, inline=symx.inline_private_helpers(prog, public={"get_array"})) if p.outcome == "return" and p.value is not None]
    if not spaths:
        raise AnalysisError("C03.R3: sample_patch_sum has no returning path")
    arr = Rational(_atom("self.get_array()"))
    A = lambda spec: Rational(uf_atom(f"einsum<{spec}>", arr))  # noqa: E731
    want_d = A("bij->b")
    want_s = A("bij->b") - A("bij->jb") - A("bij->ib") + A("bii->ib")
    for sp_path in spaths:
        ret = sp_path.value
        when = f" [{sp_path.cond_text()[:50]}]" if sp_path.conds else ""
        ctor = [x for x in ast.walk(ret) if isinstance(x, ast.Call) and len(x.args) >= 3]
        if not ctor:
            raise AnalysisError("C03.R3: SampledData(binning, data, samples) construction not recognised")
        c = ctor[0]
        d, s = PE(c.args[1], {}, lambda t: t), PE(c.args[2], {}, lambda t: t)
        if d.equals(want_d):
            res.ok("C03.R3", res.site(sp, "value" + when), "value = sum over both patch axes per bin")
        else:
            res.violation("C03.R3", sp, sp_path.node or sp.node, f"the value of the patch sum{when} is {d.canon()}, expected einsum('bij->b')", key_extra="patch-sum-value")
        if s.equals(want_s):
            res.ok("C03.R3", res.site(sp, "samples" + when), "samples = total - pairs with the patch as first - as second + its diagonal (counted twice)")
        else:
            res.violation(
                "C03.R3",
                sp,
                sp_path.node or sp.node,
                f"jackknife samples{when} normalise to {s.canon()[:200]}, expected total - einsum('bij->jb') - einsum('bij->ib') + einsum('bii->ib'): sample k is not the sum without patch k",
                key_extra="patch-sum-samples",
            )
    # the total is tiled to (num_patches, num_bins): one row per sample
    tiles = [ev.expr for ev in spaths[0].calls("tile")]
    if tiles and len(tiles[0].args) == 2 and isinstance(tiles[0].args[1], ast.Tuple) and "num_patches" in unparse(tiles[0].args[1].elts[0]) and unparse(tiles[0].args[1].elts[1]) == "1":
        res.ok("C03.R3", res.site(sp, "tile"), "total repeated once per patch (rows = samples)")
    else:
        res.violation("C03.R3", sp, sp.node, "the total is not repeated to shape (num_patches, num_bins)", key_extra="patch-sum-tile")
    # jackknife of histograms: leave-one-out sum over the patch axis, samples as rows
    rj = prog.func("resample_jackknife")
    res.touch(rj)
    rets = [r.value for r in walk_no_nested(rj.node) if isinstance(r, ast.Return)]
    ok = False
    if rets and isinstance(rets[0], ast.Call) and isinstance(rets[0].func, ast.Attribute) and rets[0].func.attr == "sum":
        ax = kwarg(rets[0], "axis")
        if isinstance(ax, ast.Constant) and ax.value == 1:
            ok = True
    if ok:
        res.ok("C03.R3", res.site(rj), "each sample sums the selected patch rows (axis=1 of the gathered (sample, patch, bin) array)")
    else:
        res.violation("C03.R3", rj, rj.node, "histogram jackknife samples are not sums over the gathered patch axis", key_extra="hist-jackknife-axis")
    resh = [x for x in calls_in(rj) if isinstance(x.func, ast.Attribute) and x.func.attr == "reshape"]
    if resh and "num_patches" in unparse(resh[0]) and "-1" in unparse(resh[0]):
        res.ok("C03.R3", res.site(rj, "reshape"), "index table has one row per sample and num_patches-1 columns")
    else:
        res.violation("C03.R3", rj, rj.node, "index table of the histogram jackknife is not (num_patches, num_patches - 1)", key_extra="hist-jackknife-shape")


def rule_r4(prog, res) -> None:
    """delete-one jackknife covariance normalisation"""
    cv = prog.func("cov_from_samples")
    res.touch(cv)
    # decided on the symbolic return values (private helpers expanded, locals substituted), once per orientation:
    # every numpy.cov call that reaches a result is cov(X, rowvar=<orientation>, ddof=0) and is multiplied by
    # exactly X.shape[<samples axis>] - 1
    from .. import symx
    from ..norm import poly as _polyn

    if "rowvar" not in cv.param_names():
        raise AnalysisError("C03.R4: cov_from_samples has no rowvar parameter any more")
    ncov = 0
    bad: dict = {}
    kparam = next((q for q in cv.param_names() if q == "kind"), None)

    def kind_oracle(kind_value):
        """decides tests that compare the kind of covariance with a literal (`kind == "diag"`, `CovKind(kind) != "var"`)"""

        def orc(t):
            if isinstance(t, ast.Compare) and len(t.ops) == 1 and isinstance(t.ops[0], (ast.Eq, ast.NotEq)) and kparam:
                sides = [t.left, t.comparators[0]]
                lit = next((x for x in sides if isinstance(x, ast.Constant) and isinstance(x.value, str)), None) or next((x for x in sides if isinstance(x, ast.Attribute) and (dotted(x) or "").startswith("CovKind.")), None)
                var = next((x for x in sides if x is not lit), None)
                if lit is not None and var is not None and any(isinstance(y, ast.Name) and y.id == kparam for y in ast.walk(var)):
                    lv = lit.value if isinstance(lit, ast.Constant) else lit.attr
                    return (lv == kind_value) == isinstance(t.ops[0], ast.Eq)
            return None

        return orc

    # (a) which kind of covariance is returned for which request: full = the covariance matrix itself, var = its main
    # diagonal only, diag = main diagonal plus the diagonals that pair the same observable of different sample sets;
    # a single sample gives NaN (no scatter to estimate), never zeros
    if kparam:
        for orient in (False, True):
            for kv in ("full", "var", "diag"):
                kpaths = [p for p in symx.Explorer(prog, inline=symx.inline_private_helpers(prog), oracle=kind_oracle(kv)).run(cv, {"rowvar": ast.Constant(orient)}) if p.outcome == "return" and p.value is not None]
                main = [p for p in kpaths if any(isinstance(x, ast.Call) and (dotted(x.func) or "").split(".")[-1] == "cov" for x in ast.walk(p.value))]
                for p in main:
                    diags = [x for x in ast.walk(p.value) if isinstance(x, ast.Call) and (dotted(x.func) or "").split(".")[-1] == "diag"]
                    ks = []
                    for d_ in diags:
                        kk = kwarg(d_, "k") or (d_.args[1] if len(d_.args) > 1 else ast.Constant(value=0))
                        ks.append(unparse(kk))
                    why = None
                    if kv == "full" and diags:
                        why = "the full covariance is reduced to diagonals"
                    elif kv == "var" and (not diags or any(k_ != "0" for k_ in ks)):
                        why = f"the variance-only covariance is not the main diagonal (diagonals taken: {sorted(set(ks))})"
                    elif kv == "diag" and "0" not in ks:
                        why = f"the main diagonal (k=0) is missing from the diagonals-only covariance (diagonals taken: {sorted(set(ks))[:4]})"
                    elif kv == "diag" and not (any("shape" in k_ and not k_.startswith("-") for k_ in ks) and any("shape" in k_ and k_.startswith("-") for k_ in ks)):
                        why = f"the diagonals that pair the same observable of different sample sets (offsets ± the width of a set, above and below the main diagonal) are not both taken (diagonals taken: {sorted(set(ks))[:4]})"
                    # a diagonal is taken out and put back at the SAME offset: diag(diag(M, k=a), k=b) with a = b
                    for d_ in diags:
                        inner = d_.args[0] if d_.args else None
                        if isinstance(inner, ast.Call) and (dotted(inner.func) or "").split(".")[-1] == "diag":
                            ka = unparse(kwarg(inner, "k") or (inner.args[1] if len(inner.args) > 1 else ast.Constant(value=0)))
                            kb = unparse(kwarg(d_, "k") or (d_.args[1] if len(d_.args) > 1 else ast.Constant(value=0)))
                            if ka != kb and not why:
                                why = f"a diagonal is taken at offset {ka[:30]} and put back at offset {kb[:30]}"
                    if why:
                        bad.setdefault("kind", (p, f"kind='{kv}': {why}"))
                if not main:
                    bad.setdefault("kind", (None, f"kind='{kv}': no path computes a covariance"))
                if not any("nan" in unparse(p.value) for p in kpaths if not any(isinstance(x, ast.Call) and (dotted(x.func) or "").split(".")[-1] == "cov" for x in ast.walk(p.value))):
                    bad.setdefault("single", (None, "no path returns NaN for a single sample"))
        if "kind" in bad:
            res.violation("C03.R4", cv, (bad["kind"][0].node if bad["kind"][0] is not None else None) or cv.node, f"cov_from_samples: {bad['kind'][1]} — the matrix handed out is not the kind of covariance that was asked for (correlations dropped or invented), silently", key_extra="cov-kind-dispatch")
        else:
            res.ok("C03.R4", res.site(cv, "kind"), "full / var / diag return the matrix, its main diagonal, the main plus the cross-sample diagonals")
        # the offset of the cross-sample diagonals grows from sample set to sample set (it is the summed width of the sets
        # seen so far): a variable that a loop over the sample sets uses as diagonal offset is carried through the loop —
        # re-assigned from the current set alone it is right for two sets of equal width and wrong from the third on
        from ..inline import inlined as _inl

        try:
            cnode = _inl(prog, cv).node
        except Exception:  # noqa: BLE001
            cnode = cv.node
        for lp in [x for x in ast.walk(cnode) if isinstance(x, ast.For)]:
            offs = set()
            for y in ast.walk(lp):
                if isinstance(y, ast.Call) and (dotted(y.func) or "").split(".")[-1] == "diag":
                    kk = kwarg(y, "k") or (y.args[1] if len(y.args) > 1 else None)
                    if kk is not None:
                        offs |= {z.id for z in ast.walk(kk) if isinstance(z, ast.Name)}
            tnames = {z.id for z in ast.walk(lp.target) if isinstance(z, ast.Name)}

            def defs_of(v):
                return [y for y in ast.walk(lp) if (isinstance(y, ast.AugAssign) and isinstance(y.target, ast.Name) and y.target.id == v) or (isinstance(y, ast.Assign) and any(isinstance(t, ast.Name) and t.id == v for t in y.targets))]

            # carried through the loop: accumulated (`v += …`, `v = v + …`) or computed from a variable that is (`k = -v`)
            carried_vars: set = set()
            changed_ = True
            while changed_:
                changed_ = False
                for y0 in ast.walk(lp):
                    for t0 in ([y0.target] if isinstance(y0, ast.AugAssign) else y0.targets if isinstance(y0, ast.Assign) else []):
                        if isinstance(t0, ast.Name) and t0.id not in carried_vars:
                            ds = defs_of(t0.id)
                            if ds and all((isinstance(y, ast.AugAssign) and isinstance(y.op, ast.Add)) or (isinstance(y, ast.Assign) and any(isinstance(z, ast.Name) and (z.id == t0.id or z.id in carried_vars) for z in ast.walk(y.value))) for y in ds):
                                carried_vars.add(t0.id)
                                changed_ = True
            for v in sorted(offs - tnames):
                defs_in = defs_of(v)
                if not defs_in:
                    continue
                carried = v in carried_vars
                if carried:
                    res.ok("C03.R4", res.site(cv, f"offset {v}"), "the offset of the cross-sample diagonals is accumulated over the sample sets")
                else:
                    res.violation("C03.R4", cv, defs_in[0], f"the diagonal offset `{v}` is re-assigned from the current sample set alone inside the loop over the sample sets (`{norm_stmt(defs_in[0])[:60]}`) instead of accumulated: from the third set on the diagonals taken are not the ones that pair the same observable — correlations dropped and unrelated ones kept, silently", key_extra="cov-diag-offset-not-accumulated")
        if "single" in bad:
            res.violation("C03.R4", cv, cv.node, "cov_from_samples no longer answers a single sample with NaN: (N-1)·cov = 0 is reported as a perfectly known result (zero errors)", key_extra="cov-single-sample")
    for orient in (False, True):
        paths = symx.Explorer(prog, inline=symx.inline_private_helpers(prog)).run(cv, {"rowvar": ast.Constant(orient)})
        for p in paths:
            if p.outcome != "return" or p.value is None:
                continue
            pm = parents_map(p.value)
            # (b) several sample sets are joined along the OBSERVABLE axis (the other one would add samples)
            for cc in [x for x in ast.walk(p.value) if isinstance(x, ast.Call) and (dotted(x.func) or "").split(".")[-1] in ("concatenate", "hstack", "vstack", "column_stack")]:
                ax = kwarg(cc, "axis")
                fnm = (dotted(cc.func) or "").split(".")[-1]
                axv = ax.value if isinstance(ax, ast.Constant) else {"hstack": 1, "column_stack": 1, "vstack": 0}.get(fnm, 0 if ax is None else None)
                if axv is not None and axv != (0 if orient else 1):
                    bad.setdefault("concat", (p, f"rowvar={orient}: sample sets are joined along axis {axv}, the samples axis"))
            for call in [x for x in ast.walk(p.value) if isinstance(x, ast.Call) and (dotted(x.func) or "").split(".")[-1] == "cov" and x.args]:
                ncov += 1
                ddof = kwarg(call, "ddof")
                if not (isinstance(ddof, ast.Constant) and ddof.value == 0):
                    bad.setdefault("ddof", call)
                rv = kwarg(call, "rowvar")
                rv_eff = True if rv is None else (rv.value if isinstance(rv, ast.Constant) and isinstance(rv.value, bool) else None)
                if rv_eff is not orient:
                    bad.setdefault("rowvar", call)
                    continue
                X = call.args[0]
                n_txt = unparse(ast.Subscript(value=ast.Attribute(value=X, attr="shape", ctx=ast.Load()), slice=ast.Constant(1 if orient else 0), ctx=ast.Load()))
                want = Rational(_atom(n_txt)) - Rational({(): 1})
                fac = Rational({(): 1})
                cur, par = call, pm.get(id(call))
                understood = True
                while par is not None:
                    if isinstance(par, ast.BinOp) and isinstance(par.op, (ast.Mult, ast.Div)):
                        other = par.right if par.left is cur else par.left
                        try:
                            o = _polyn(other)
                        except Exception:  # noqa: BLE001
                            understood = False
                            break
                        if isinstance(par.op, ast.Mult):
                            fac = fac * o
                        elif par.left is cur:
                            fac = fac / o
                        else:
                            understood = False
                            break
                    cur, par = par, pm.get(id(par))
                if not understood or not fac.equals(want):
                    bad.setdefault("factor", call)
    if "concat" in bad:
        res.violation("C03.R4", cv, bad["concat"][0].node or cv.node, f"cov_from_samples: {bad['concat'][1]} — the sets are stacked as if they were more samples of the same observables: the joint covariance has the wrong size / the wrong N", key_extra="cov-concat-axis")
    if ncov < 2:
        # the one-pass form  E[x xT] - E[x] E[x]T : the same number on paper, but jackknife samples scatter by far less
        # than their value, so the difference of the two large terms cancels (entries off by the size of the variance,
        # negative variances, a covariance that is not positive semi-definite)
        raw = None
        for orient in (False, True):
            for p in symx.Explorer(prog, inline=symx.inline_private_helpers(prog)).run(cv, {"rowvar": ast.Constant(orient)}):
                if p.outcome != "return" or p.value is None:
                    continue
                for x in ast.walk(p.value):
                    if isinstance(x, ast.BinOp) and isinstance(x.op, ast.Sub):
                        means = [y for y in ast.walk(x.right) if isinstance(y, ast.Call) and (dotted(y.func) or unparse(y.func)).split(".")[-1] in ("mean", "average", "nanmean")]
                        prod = any(isinstance(y, ast.BinOp) and isinstance(y.op, (ast.MatMult, ast.Mult)) or (isinstance(y, ast.Call) and (dotted(y.func) or "").split(".")[-1] in ("dot", "matmul", "einsum", "outer")) for y in ast.walk(x.left))
                        outer = any(isinstance(y, ast.Call) and (dotted(y.func) or "").split(".")[-1] in ("outer", "multiply", "einsum", "square", "dot") for y in ast.walk(x.right)) or any(isinstance(y, ast.BinOp) and isinstance(y.op, (ast.Mult, ast.Pow, ast.MatMult)) for y in ast.walk(x.right))
                        if len(means) >= 1 and prod and outer:
                            raw = (p, x)
        if raw is not None:
            res.violation(
                "C03.R4",
                cv,
                raw[0].node or cv.node,
                f"the jackknife covariance is computed from raw moments (`{unparse(raw[1])[:70]}…`: second moment minus product of the means) instead of from the centred samples: jackknife samples differ from each other by far less than their value, "
                "so the subtraction cancels — entries are off by the order of the variance itself, variances can come out negative and the matrix is no longer positive semi-definite",
                key_extra="cov-raw-moments",
            )
            return
        raise AnalysisError("C03.R4: covariance computation not recognised (no numpy.cov call reaches the result of cov_from_samples)")
    ok_ddof, ok_fac, ok_rv = "ddof" not in bad, "factor" not in bad, "rowvar" not in bad
    if ok_ddof and ok_fac:
        res.ok("C03.R4", res.site(cv), f"covariance = (N-1) * cov(ddof=0) = (N-1)/N * sum (x-mean)(x-mean)^T with N = number of samples ({ncov} cov terms on the return paths, both orientations)")
    else:
        res.violation("C03.R4", cv, cv.node, f"jackknife covariance normalisation is not (N-1) * cov(ddof=0) with N = length of the samples axis (ddof=0: {ok_ddof}, factor N-1: {ok_fac})", key_extra="cov-normalisation")
    if ok_rv:
        res.ok("C03.R4", res.site(cv, "rowvar"), "sample axis orientation forwarded to numpy.cov")
    else:
        res.violation("C03.R4", cv, cv.node, "numpy.cov is called with a fixed orientation: samples and observables are exchanged", key_extra="cov-rowvar")
    sd = prog.find_class("SampledData")
    err, covp = sd.methods.get("error"), sd.methods.get("covariance")
    if err is None or covp is None:
        raise AnalysisError("C03.R4: SampledData.error/covariance vanished")
    res.touch(err)
    from ..norm import Rational as _R, _atom as _A, poly as _poly, uf_atom as _uf

    rexpr = [r.value for r in walk_no_nested(err.node) if isinstance(r, ast.Return)][0]
    rtxt = unparse(rexpr).replace(" ", "")
    resolver_e = lambda n_: (lambda vals: vals[0] if len(vals) == 1 else None)([v for v in all_def_values(err.node, n_) if v is not None])  # noqa: E731
    want_err = _R(_uf("sqrt", _R(_uf("diag", _R(_A("self.covariance"))))))
    if _poly(rexpr, resolver_e).equals(want_err):
        res.ok("C03.R4", res.site(err), "error = sqrt(diag(covariance))")
    else:
        res.violation("C03.R4", err, err.node, f"error is {rtxt}, expected sqrt(diag(covariance))", key_extra="error-formula")
    ctxt = unparse([r.value for r in walk_no_nested(covp.node) if isinstance(r, ast.Return)][0]).replace(" ", "")
    # correlation = covariance scaled to unit diagonal: of degree zero in the covariance (cov / outer(sqrt(diag), sqrt(diag)))
    corr = sd.methods.get("correlation")
    if corr is not None:
        from .. import homog

        res.touch(corr)

        def atom_c(e):
            if isinstance(e, ast.Attribute) and e.attr == "covariance" and isinstance(e.value, ast.Name) and e.value.id == "self":
                return homog.Deg.of({"cov": 1})
            if isinstance(e, ast.Call) and isinstance(e.func, ast.Name) and e.func.id in (symx.ENTER, symx.LOOP, symx.ELEM) and e.args:
                return homog.degree(e.args[0], atom_c)
            return None

        for p_ in symx.explore(prog, corr, inline=symx.inline_private_helpers(prog)):
            if p_.outcome != "return" or p_.value is None:
                continue
            v_ = p_.value
            # (element-wise patches such as corr[cov == 0] = 0 are stores of constants: SETITEM wrappers carry the base)
            while isinstance(v_, ast.Call) and isinstance(v_.func, ast.Name) and v_.func.id == symx.SETITEM and v_.args:
                v_ = v_.args[0]
            d_ = homog.degree(v_, atom_c)
            if isinstance(d_, homog.Deg) and not d_.exps:
                res.ok("C03.R4", res.site(corr), "correlation matrix is of degree zero in the covariance (covariance over the outer product of the standard deviations)")
            elif isinstance(d_, homog.Unknown_):
                raise AnalysisError(f"C03.R4: cannot type the correlation matrix ({d_}: {unparse(v_)[:60]})")
            else:
                res.violation("C03.R4", corr, p_.node or corr.node, f"the correlation matrix is {d_} in the covariance instead of scale-free: it is not the covariance divided by the outer product of the standard deviations (values outside [-1, 1], dependent on the units of the data)", key_extra="correlation-not-normalised")
    # the covariance property: cov_from_samples of exactly the stored samples, rows are samples (rowvar false, explicitly or
    # by default), the full matrix (kind full, explicitly or by default) — however the arguments are spelled
    from .common import argval

    def _cov_call_ok() -> bool:
        r_ = [r.value for r in walk_no_nested(covp.node) if isinstance(r, ast.Return)][0]
        if not (isinstance(r_, ast.Call) and cv in prog.resolve_call(covp, r_).funcs()):
            return False
        first = r_.args[0] if r_.args else argval(prog, covp, r_, cv.param_names()[0])
        if first is None or unparse(first) != f"{covp.param_names()[0]}.samples":
            return False
        rv = argval(prog, covp, r_, "rowvar")
        if rv is not None and not (isinstance(rv, ast.Constant) and rv.value is False):
            return False
        kd = argval(prog, covp, r_, "kind")
        if kd is not None and not ((isinstance(kd, ast.Constant) and kd.value == "full") or (dotted(kd) or "").endswith(".full")):
            return False
        if any(k.arg is None for k in r_.keywords) or any(isinstance(a_, ast.Starred) for a_ in r_.args):
            return False
        return True

    if ctxt == "cov_from_samples(self.samples)" or _cov_call_ok():
        res.ok("C03.R4", res.site(covp), "covariance of exactly the stored samples (default rowvar=False: rows are samples)")
    else:
        res.violation("C03.R4", covp, covp.node, f"covariance is {ctxt}", key_extra="covariance-source")


def _jackknife_orientation(prog, res, rj) -> None:
    """the axis that is resampled is the patch axis: every caller hands over an array whose rows are patches (allocated
    with the number of patches first) with an orientation flag that is — explicitly or by default — "patches are rows",
    and for that flag the resampling takes N from axis 0 of the array AS GIVEN (no transpose on that path)"""
    from .. import symx

    flag = next((q for q in rj.param_names()[1:] if "row" in q or "patch" in q or "axis" in q), None)
    if flag is None:
        return
    a_ = rj.node.args
    defaults = dict(zip([q.arg for q in a_.args][len(a_.args) - len(a_.defaults) :], a_.defaults))
    defaults.update({q.arg: d for q, d in zip(a_.kwonlyargs, a_.kw_defaults) if d is not None})
    arr = rj.param_names()[0]
    n = 0
    from ..inline import inlined as _inl5
    from .common import expand_locals as _xl5

    callers = [f0 for f0 in prog.funcs if f0.parent is None and any(rj in prog.resolve_call(f0, c).funcs() for c in calls_in(f0))]
    for f0 in callers:
        fi = _inl5(prog, f0, keep={rj.name}, desugar=True)  # a helper that allocates / fills the array is expanded in place
        for c in calls_in(fi):
            if rj not in prog.resolve_call(fi, c).funcs() or not c.args:
                continue
            n += 1
            res.touch(f0)
            eff = kwarg(c, flag) or defaults.get(flag)
            if not (isinstance(eff, ast.Constant) and isinstance(eff.value, bool)):
                raise AnalysisError(f"C03.R5: orientation flag of the resample_jackknife call in {fi.short} is not a constant")
            # orientation of the array handed over: first dimension of its allocation
            a0 = c.args[0]
            for _ in range(4):  # counts = _h2_counts = np.empty(...)
                vs0 = [v for v in all_def_values(fi.node, a0.id) if v is not None] if isinstance(a0, ast.Name) else []
                if len(vs0) == 1 and isinstance(vs0[0], ast.Name):
                    a0 = vs0[0]
                else:
                    break
            vals = [v for v in all_def_values(fi.node, a0.id) if v is not None] if isinstance(a0, ast.Name) else []
            rows_are_patches = None
            for v in vals:
                shp = _xl5(fi.node, v.args[0], set(fi.param_names()), depth=4) if isinstance(v, ast.Call) and v.args else None
                if isinstance(v, ast.Call) and (dotted(v.func) or "").split(".")[-1] in ("empty", "zeros", "full") and isinstance(shp, ast.Tuple) and shp.elts:
                    first = unparse(_xl5(fi.node, shp.elts[0], set(fi.param_names()), depth=4)) + " " + unparse(v.args[0].elts[0] if isinstance(v.args[0], ast.Tuple) else v.args[0])
                    rows_are_patches = ("catalog" in first or "patch" in first) and "bin" not in first
            if rows_are_patches is None:
                raise AnalysisError(f"C03.R5: orientation of the array handed to resample_jackknife in {fi.short} not recognised")
            if rows_are_patches != eff.value:
                res.violation("C03.R5", fi, c, f"{fi.qualname} hands resample_jackknife an array whose rows are {'patches' if rows_are_patches else 'bins'} with {flag}={eff.value}" + ("" if kwarg(c, flag) is not None else " (the default)") + ": the bins are resampled instead of the patches — wrong shape, or, when both numbers agree, silently wrong jackknife samples", key_extra=f"jackknife-orientation-{fi.qualname}")
            else:
                res.ok("C03.R5", res.site(fi, "orientation"), f"rows are patches, {flag}={eff.value}")
    if n == 0:
        raise AnalysisError("C03.R5: no caller of resample_jackknife found")
    for val_ in (True,):
        for p in symx.Explorer(prog, inline=symx.inline_private_helpers(prog)).run(rj, {flag: ast.Constant(val_)}):
            if p.outcome != "return" or p.value is None:
                continue
            transposed = any((isinstance(y, ast.Attribute) and y.attr == "T" and isinstance(y.value, ast.Name) and y.value.id == arr) or (isinstance(y, ast.Call) and (dotted(y.func) or unparse(y.func)).split(".")[-1] in ("transpose", "swapaxes") and arr in unparse(y)) for y in ast.walk(p.value))
            if transposed:
                res.violation("C03.R5", rj, p.node or rj.node, f"with {flag}=True (rows are patches) resample_jackknife transposes its input: it resamples the bins instead of the patches", key_extra="jackknife-transposes-patch-rows")
            else:
                res.ok("C03.R5", res.site(rj, f"{flag}=True"), "the array is resampled along its rows as given", nontrivial=False)


def rule_r5(prog, res) -> None:
    """histogram jackknife: the k-th repetition loses exactly patch k (tile / delete / reshape idiom)"""
    from ..norm import poly

    rj = prog.func("resample_jackknife")
    res.touch(rj)
    _jackknife_orientation(prog, res, rj)
    fn = rj.node
    resolver = lambda n: (lambda vals: vals[0] if len(vals) == 1 else None)([v for v in all_def_values(fn, n) if v is not None])  # noqa: E731
    dele = [x for x in calls_in(rj) if (dotted(x.func) or "").endswith("delete")]
    tile = [x for x in calls_in(rj) if (dotted(x.func) or "").endswith("tile")]
    if len(dele) != 1 or len(tile) != 1 or len(dele[0].args) < 2:
        raise AnalysisError("C03.R5: resample_jackknife no longer uses the tile/delete idiom (not recognised)")
    # N and the index range
    rng_name = tile[0].args[0]
    rdef = resolver(rng_name.id) if isinstance(rng_name, ast.Name) else rng_name
    if not (isinstance(rdef, ast.Call) and (dotted(rdef.func) or "").endswith("arange")):
        raise AnalysisError("C03.R5: tiled sequence is not an arange")
    n_expr = rdef.args[-1] if len(rdef.args) <= 2 else rdef.args[1]
    N = poly(n_expr, resolver)
    reps = poly(tile[0].args[1], resolver)
    if not reps.equals(N) or (len(rdef.args) == 2 and not (isinstance(rdef.args[0], ast.Constant) and rdef.args[0].value == 0)):
        res.violation("C03.R5", rj, tile[0], "the patch indices 0..N-1 are not repeated exactly N times", key_extra="hist-jackknife-tile")
        return
    R = Rational(_atom("<range>"))
    D = poly(dele[0].args[1], resolver, lambda t: "<range>" if t == unparse(rng_name) or t == unparse(rdef) else t)
    one = poly(ast.parse("1", mode="eval").body)
    if D.equals(R * (N + one)):
        res.ok("C03.R5", res.site(rj, "np.delete"), "positions k*(N+1) are deleted from N repetitions of 0..N-1: the k-th repetition loses patch k")
        return
    # equivalent spelling: arange(0, N*N, N+1)
    dd = dele[0].args[1]
    ddef = resolver(dd.id) if isinstance(dd, ast.Name) else dd
    if isinstance(ddef, ast.Call) and (dotted(ddef.func) or "").endswith("arange") and len(ddef.args) == 3:
        if poly(ddef.args[2], resolver).equals(N + one) and poly(ddef.args[1], resolver).equals(N * N) and isinstance(ddef.args[0], ast.Constant) and ddef.args[0].value == 0:
            res.ok("C03.R5", res.site(rj, "np.delete"), "positions 0, N+1, 2(N+1), … are deleted")
            return
    # recognised wrong form: a multiple of the range with another factor
    from ..norm import atoms_of

    def strip(p: dict):
        out = {}
        for mono, co in p.items():
            d_ = dict(mono)
            if d_.get("<range>", 0) < 1:
                return None
            d_["<range>"] -= 1
            out[tuple(sorted((k, v) for k, v in d_.items() if v))] = co
        return out

    qn = strip(D.num)
    quot = Rational(qn, D.den) if qn is not None else D
    if qn is not None and "<range>" not in atoms_of(quot):
        res.violation(
            "C03.R5",
            rj,
            dele[0],
            f"np.delete removes the positions range * ({quot.canon()}) from N repetitions of 0..N-1; only range * (N+1) removes patch k from the k-th repetition: "
            "the samples come out in another patch order (or drop the wrong patch)",
            key_extra="hist-jackknife-delete-positions",
        )
        return
    raise AnalysisError(f"C03.R5: deleted positions {unparse(dele[0].args[1])} not recognised")




# ----------------------------------------------------------------------------- R6 no write through a view


VIEW_CALLS = {"diagonal", "reshape", "ravel", "asarray", "asanyarray", "atleast_1d", "atleast_2d", "atleast_3d", "squeeze", "swapaxes", "transpose", "view", "broadcast_to", "moveaxis", "expand_dims"}


def _einsum_is_view(call: ast.Call) -> bool:
    """numpy.einsum returns a view of its single operand when no index is summed over ('bii->ib', 'ij->ji')"""
    if len(call.args) != 2 or not (isinstance(call.args[0], ast.Constant) and isinstance(call.args[0].value, str)) or call.keywords:
        return False
    spec = call.args[0].value.replace(" ", "")
    if "->" not in spec or "," in spec:
        return False
    lhs, rhs = spec.split("->")
    return set(lhs) == set(rhs)


def storage_origin(prog, fi: FuncInfo, expr: ast.AST, cfg, IN, at: int, depth: int = 6) -> str:
    """'storage' when the expression certainly denotes (a view of) an array owned by self or by a caller,
    'fresh' when it certainly is a new array, else 'unknown'"""
    if depth <= 0:
        return "unknown"
    params = set(fi.param_names())
    if isinstance(expr, ast.Name):
        defs = IN.get(at, {}).get(expr.id, set())
        if not defs:
            return "unknown"
        kinds = set()
        for d in defs:
            if d == -1:
                kinds.add("storage" if expr.id in params else "unknown")
                continue
            nd = cfg.nodes[d]
            st = nd.ast
            if isinstance(st, ast.Assign) and len(st.targets) == 1 and isinstance(st.targets[0], ast.Name):
                kinds.add(storage_origin(prog, fi, st.value, cfg, IN, d, depth - 1))
            elif isinstance(st, ast.AugAssign):
                kinds.add("same")  # in-place: keeps the identity it had
            else:
                kinds.add("unknown")
        kinds.discard("same")
        return kinds.pop() if len(kinds) == 1 else "unknown"
    if isinstance(expr, ast.Attribute):
        if expr.attr == "T":
            return storage_origin(prog, fi, expr.value, cfg, IN, at, depth - 1)
        root = expr
        while isinstance(root, ast.Attribute):
            root = root.value
        if isinstance(root, ast.Name) and root.id in params:
            m = None
            if fi.cls is not None and root.id == "self":
                m = prog.find_method(fi.cls, expr.attr)
            if m is not None and m.is_property:
                return "unknown"
            return "storage"
        return "unknown"
    if isinstance(expr, ast.Subscript):
        sl = expr.slice
        parts = sl.elts if isinstance(sl, ast.Tuple) else [sl]
        basic = all(isinstance(p_, ast.Slice) or (isinstance(p_, ast.Constant) and (isinstance(p_.value, int) or p_.value is None or p_.value is Ellipsis)) or (isinstance(p_, ast.Attribute) and p_.attr == "newaxis") for p_ in parts)
        if basic:
            return storage_origin(prog, fi, expr.value, cfg, IN, at, depth - 1)
        return "fresh" if any(isinstance(p_, (ast.List, ast.Compare)) for p_ in parts) else "unknown"
    if isinstance(expr, (ast.BinOp, ast.UnaryOp, ast.Compare, ast.ListComp, ast.List, ast.Tuple, ast.Constant)):
        return "fresh"
    if isinstance(expr, ast.Call):
        name = (dotted(expr.func) or unparse(expr.func)).split(".")[-1]
        if name == "einsum":
            return storage_origin(prog, fi, expr.args[1], cfg, IN, at, depth - 1) if _einsum_is_view(expr) else "fresh"
        if name in VIEW_CALLS:
            base = expr.func.value if isinstance(expr.func, ast.Attribute) and (dotted(expr.func.value) or "").split(".")[0] not in ("np", "numpy") else (expr.args[0] if expr.args else None)
            return storage_origin(prog, fi, base, cfg, IN, at, depth - 1) if base is not None else "unknown"
        tg = prog.resolve_call(fi, expr)
        funcs = [t for t in tg.funcs() if not t.is_abstract]
        if tg.ext_names() and not funcs:
            return "fresh" if any(e.startswith("numpy.") for e in tg.ext_names()) else "unknown"
        kinds = set()
        for t in funcs + [m for f_ in tg.funcs() if f_.cls is not None for sub in prog.subclasses(f_.cls) for m in [sub.methods.get(f_.name)] if m is not None and not m.is_abstract]:
            c2, IN2 = reaching_defs(t.node)
            for nd in c2.nodes:
                if nd.kind == "stmt" and isinstance(nd.ast, ast.Return) and nd.ast.value is not None:
                    kinds.add(storage_origin(prog, t, nd.ast.value, c2, IN2, nd.id, depth - 2))
        if kinds == {"fresh"}:
            return "fresh"
        if "storage" in kinds:
            return "storage"  # some implementation hands out its own storage
        return "unknown"
    return "unknown"


def rule_r6(prog, res) -> None:
    """resampling and derived quantities never update an array in place that is (a view of) the storage of a
    container or of an argument: the inputs of a jackknife stay what they were"""
    inplace_rule(prog, res, "C03.R6", ("yaw.correlation", "yaw.redshifts"), "the stored pair counts / samples are overwritten, every later sample or sum is computed from corrupted inputs")


def inplace_rule(prog, res, rule: str, modules: tuple, consequence: str) -> None:
    n_aug = 0
    for fi in prog.funcs:
        if not fi.module.name.startswith(modules):
            continue
        augs = [x for x in walk_no_nested(fi.node) if isinstance(x, ast.AugAssign) and isinstance(x.target, ast.Name)]
        if not augs:
            continue
        cfg, IN = reaching_defs(fi.node)
        for a in augs:
            nodes = cfg.nodes_of(a)
            if not nodes:
                continue
            n_aug += 1
            res.touch(fi)
            kind = storage_origin(prog, fi, ast.Name(id=a.target.id, ctx=ast.Load()), cfg, IN, nodes[0].id)
            if kind == "storage":
                res.violation(
                    rule,
                    fi,
                    a,
                    f"`{norm_stmt(a)}` updates in place an array that is a view of the container's (or an argument's) storage: {consequence}",
                    key_extra=f"inplace-on-view-{fi.qualname}-{a.target.id}",
                )
            else:
                res.ok(rule, res.site(fi, norm_stmt(a)[:50]), f"in-place update of a {kind} array (not a view of stored data)", nontrivial=kind == "fresh")
    if n_aug == 0:
        res.ok(rule, "no in-place updates", "no augmented assignment to a local array in these modules", nontrivial=False)


NARROW_INTS = {"i1", "i2", "u1", "u2", "int8", "int16", "uint8", "uint16"}


def _narrow_dtype(prog, fi, e) -> bool:
    """the expression names an integer dtype of at most 16 bit (literally or through a module constant)"""
    if e is None:
        return False
    if isinstance(e, ast.Constant) and isinstance(e.value, str):
        return e.value.lstrip("<>=|") in NARROW_INTS
    d = dotted(e) or ""
    if d.split(".")[-1] in NARROW_INTS:
        return True
    if isinstance(e, ast.Name):
        try:
            hits = prog.lookup(fi.module, e.id, fi.variant)
        except Exception:  # noqa: BLE001
            hits = []
        return any(getattr(h, "kind", "") == "global" and h.value is not None and _narrow_dtype(prog, fi, h.value) for h in hits)
    return False


def rule_r7(prog, res) -> None:
    """index arithmetic of the resampling is exact for every number of patches: an array created with a 16-bit (or
    narrower) integer dtype — such as the patch-id dtype — is never an operand of a multiplication, whose result would
    wrap around silently (index k * (N + 1) exceeds 32767 from N = 182 patches on)"""
    KEEP_DTYPE = {"tile", "repeat", "reshape", "ravel", "flatten", "copy", "sort", "unique", "concatenate", "asarray", "array", "atleast_1d", "squeeze", "transpose"}
    n_src = 0
    for fi in prog.funcs:
        if not fi.module.name.startswith(("yaw.correlation", "yaw.redshifts", "yaw.catalog", "yaw.utils")):
            continue
        narrow: set = set()
        changed = True
        rounds = 0
        while changed and rounds < 5:
            changed = False
            rounds += 1
            for x in walk_no_nested(fi.node):
                if not (isinstance(x, ast.Assign) and len(x.targets) == 1 and isinstance(x.targets[0], ast.Name)):
                    continue
                v, nm = x.value, x.targets[0].id
                is_narrow = False
                if isinstance(v, ast.Call):
                    fnm = (dotted(v.func) or unparse(v.func)).split(".")[-1]
                    if _narrow_dtype(prog, fi, kwarg(v, "dtype")) or (fnm == "astype" and v.args and _narrow_dtype(prog, fi, v.args[0])):
                        is_narrow = True
                    elif fnm in KEEP_DTYPE:
                        src = v.func.value if isinstance(v.func, ast.Attribute) and (dotted(v.func.value) or "").split(".")[0] not in ("np", "numpy") else (v.args[0] if v.args else None)
                        is_narrow = isinstance(src, ast.Name) and src.id in narrow and kwarg(v, "dtype") is None
                elif isinstance(v, ast.Name):
                    is_narrow = v.id in narrow
                elif isinstance(v, ast.Subscript) and isinstance(v.value, ast.Name):
                    is_narrow = v.value.id in narrow
                if is_narrow and nm not in narrow:
                    narrow.add(nm)
                    changed = True
        if not narrow:
            continue
        n_src += 1
        res.touch(fi)
        bad = None
        for x in walk_no_nested(fi.node):
            if isinstance(x, ast.BinOp) and isinstance(x.op, (ast.Mult, ast.Pow, ast.LShift)):
                if any(isinstance(s_, ast.Name) and s_.id in narrow for s_ in (x.left, x.right)):
                    bad = x
            if isinstance(x, ast.AugAssign) and isinstance(x.op, (ast.Mult, ast.Pow, ast.LShift)) and isinstance(x.target, ast.Name) and x.target.id in narrow:
                bad = x
        if bad is not None:
            res.violation(
                "C03.R7",
                fi,
                bad,
                f"`{unparse(bad)[:60]}` multiplies an array of a 16-bit (or narrower) integer type ({sorted(narrow)}): the product wraps around without error once it exceeds the type's range, "
                "the jackknife then leaves out the wrong elements for large numbers of patches",
                key_extra=f"narrow-int-product-{fi.qualname}",
            )
        else:
            res.ok("C03.R7", res.site(fi, "narrow ints"), f"arrays of a narrow integer type {sorted(narrow)} are not multiplied")
    if n_src == 0:
        res.ok("C03.R7", "no narrow ints", "no array of a narrow integer type is bound to a local in the resampling modules", nontrivial=False)


RULES = [
    ("C03.R1", rule_r1, QUICK),
    ("C03.R2", rule_r2, QUICK),
    ("C03.R3", rule_r3, QUICK),
    ("C03.R4", rule_r4, QUICK),
    ("C03.R5", rule_r5, QUICK),
    ("C03.R6", rule_r6, QUICK),
    ("C03.R7", rule_r7, QUICK),
]
