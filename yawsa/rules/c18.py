"""C18 — input is consumed in bounded chunks, each record once per pass.

R1 source-access discipline in the reader classes (only len, metadata, bounded slices,
   row-group reads, close).
R2 slice arithmetic: counter reset to 0, advanced by exactly one chunk size before each read,
   stop test, slices normalise to [N - C, N); parquet remainder pushed back to the left;
   random reader's last chunk size.
R3 pass counting: one ingest pass, at most one probe pass guarded by the create mode.
"""

from __future__ import annotations

import ast
from fractions import Fraction

from ..cfg import cfg_of
from ..dataflow import all_def_values
from ..effects import Unknown, ceval
from ..model import AnalysisError, ClassInfo, FuncInfo, dotted, norm_stmt, unparse, walk_no_nested
from ..norm import affine, affine_eq, fmt_affine
from .common import QUICK, calls_in, kwarg, parents_map, single_def_resolver

EXPLANATION = (
    "Static analysis of the reader classes on /repo's current source. R1 classifies every use of a source handle "
    "attribute (the data frame, the FITS HDU data, the HDF5 / Parquet file objects): allowed are len(), metadata "
    "attributes, column/HDU selection, slices with both bounds, read_row_group and close; anything that can "
    "materialise the whole input (unbounded slice, [...], [()], read(), to_pandas(), iteration) is a violation. "
    "R2 normalises the slice bounds of every _get_next_chunk to affine forms over (N = iteration counter, C = chunk "
    "size) and requires [N-C, N), with N reset to 0 by every __iter__, advanced by exactly +C once on every path before "
    "the read, and the stop test evaluated at the boundary counters; by induction chunk k is [kC,(k+1)C), i.e. "
    "consecutive, non-overlapping and of width C (Python slice clipping gives the tail). R3 counts the passes over the "
    "source in the catalog constructors and the ingest pipelines."
    ' R5 (progress of while loops), R6 (options forwarded), R7: every attribute that producing a chunk assigns or mutates in place is re-initialised by what __iter__ runs first.'
)
ASSUMPTIONS = [
    "Python / numpy / h5py / pandas slice clipping: x[a:b] with b > len(x) returns the tail, never wraps",
    "astropy HDU .data, h5py datasets and pyarrow ParquetFile are lazy handles; subscripting with a bounded slice reads only that range",
    "induction over the chunk index is carried out on paper (DESIGN.md C02.R1); the check decides base case, step and slice form",
]

OPENERS = ("astropy.io.fits.open", "h5py.File", "pyarrow.parquet.ParquetFile")
META_ATTRS = {"data", "metadata", "num_rows", "num_row_groups", "schema", "shape", "dtype", "columns", "names", "attrs", "schema_arrow"}
OK_METHODS = {"read_row_group", "close", "keys"}
BAD_METHODS = {"read", "read_all", "to_pandas", "to_numpy", "to_pydict", "tolist", "values", "to_table", "iter_batches", "read_row_groups", "copy", "astype"}


def _reader_classes(prog) -> list[ClassInfo]:
    base = prog.find_class("DataChunkReader")
    return [c for c in prog.subclasses(base)]


def _handle_attrs(prog, ci: ClassInfo) -> set[str]:
    """attributes that hold the data source or a lazy view on it"""
    out: set[str] = set()
    init = ci.methods.get("__init__")
    if init is None:
        return out
    params = init.param_names()
    src_param = params[1] if len(params) > 1 and params[1] in ("data", "generator") else None
    changed = True
    while changed:
        changed = False
        for x in walk_no_nested(init.node):
            if not isinstance(x, ast.Assign):
                continue
            for t in x.targets:
                if not (isinstance(t, ast.Attribute) and isinstance(t.value, ast.Name) and t.value.id == "self"):
                    continue
                v = x.value
                is_src = isinstance(v, ast.Name) and v.id == src_param and src_param == "data"
                is_open = isinstance(v, ast.Call) and any(n in OPENERS for n in prog.resolve_call(init, v).ext_names())
                derived = any(isinstance(y, ast.Attribute) and isinstance(y.value, ast.Name) and y.value.id == "self" and y.attr in out for y in ast.walk(v)) and not isinstance(v, ast.Call)
                if (is_src or is_open or derived) and t.attr not in out and not t.attr.startswith("_num"):
                    # `len(handle)` assigned to a counter is not a handle
                    out.add(t.attr)
                    changed = True
    return out


def rule_r1(prog, res) -> None:
    """source handles are used only through len / metadata / bounded slices / row-group reads / close"""
    n_classes = 0
    for ci in _reader_classes(prog):
        handles = _handle_attrs(prog, ci)
        if not handles:
            continue
        n_classes += 1
        from ..inline import inlined as _inl

        expanded_here: set = set()
        analysed = []
        for m0 in ci.methods.values():
            try:
                m1 = _inl(prog, m0, keep={"_get_next_chunk", "_load_groups", "_extract_chunk", "get_probe"}, desugar=True)
            except Exception:  # noqa: BLE001
                m1 = m0
            expanded_here |= set(getattr(m1, "inlined_helpers", []))
            analysed.append((m0, m1))
        for m0, m in analysed:
            if m0.qualname in expanded_here and m0.name.startswith("_") and not m0.name.startswith("__"):
                continue  # a private helper that was expanded into the methods that call it is judged there
            pm = None
            subs = [m] + [f for f in m0.module.all_funcs if f.parent is m0]
            for f in subs:
                pm = parents_map(f.node)
                for x in walk_no_nested(f.node):
                    if not (isinstance(x, ast.Attribute) and isinstance(x.value, ast.Name) and x.value.id == "self" and x.attr in handles and isinstance(x.ctx, ast.Load)):
                        continue
                    res.touch(m)
                    verdict, why = _classify_use(prog, f, x, pm)
                    site = res.site(m, f"self.{x.attr}")
                    if verdict == "ok":
                        res.ok("C18.R1", site + " " + why, why)
                    elif verdict == "label":
                        cur = x
                        while id(cur) in pm and not isinstance(cur, ast.stmt):
                            cur = pm[id(cur)]
                        res.violation(
                            "C18.R1",
                            m,
                            cur,
                            f"rows of self.{x.attr} are selected with {why}: the chunk [N-C, N) is a range of positions; on a data frame whose index is not 0..N-1 (filtered, concatenated, re-indexed) "
                            "label slices deliver other rows, repeat rows or drop them",
                            key_extra=f"{x.attr}-label-based",
                        )
                    elif verdict == "bad":
                        cur = x
                        while id(cur) in pm and not isinstance(cur, ast.stmt):
                            cur = pm[id(cur)]
                        res.violation("C18.R1", m, cur, f"source handle self.{x.attr} is used in a way that can read the whole input at once: {why}", key_extra=f"{x.attr}-{why[:40]}")
                    else:
                        raise AnalysisError(f"C18.R1: unclassified use of source handle self.{x.attr} in {m.short}: {why}")
    if n_classes < 4:
        raise AnalysisError(f"C18.R1: only {n_classes} reader classes with a source handle found, minimum 4")


def _classify_use(prog, f: FuncInfo, x: ast.AST, pm) -> tuple[str, str]:
    cur = x
    while True:
        p = pm.get(id(cur))
        if p is None:
            return "unknown", "no parent"
        if isinstance(p, ast.Attribute) and p.value is cur:
            if p.attr in META_ATTRS:
                cur = p
                continue
            gp = pm.get(id(p))
            if isinstance(gp, ast.Call) and gp.func is p:
                if p.attr in OK_METHODS:
                    return "ok", f".{p.attr}()"
                if p.attr in BAD_METHODS:
                    return "bad", f".{p.attr}() materialises the source"
                return "unknown", f"method .{p.attr}()"
            if p.attr == "iloc":
                cur = p  # positional indexer: classified by the slice that follows
                continue
            if p.attr in ("loc", "at"):
                return "label", f".{p.attr}[] selects rows by index label, not by position"
            return "unknown", f"attribute .{p.attr}"
        if isinstance(p, ast.Subscript) and p.value is cur:
            sl = p.slice
            if isinstance(sl, ast.Slice):
                if sl.lower is not None and sl.upper is not None and sl.step is None:
                    return "ok", "bounded slice"
                return "bad", f"slice [{unparse(sl)}] without both bounds"
            if isinstance(sl, ast.Tuple) and any(isinstance(e, ast.Slice) for e in sl.elts):
                if all((not isinstance(e, ast.Slice)) or (e.lower is not None and e.upper is not None) for e in sl.elts):
                    return "ok", "bounded slice"
                return "bad", "multi-dimensional slice without both bounds"
            if isinstance(sl, ast.Constant) and (sl.value is Ellipsis or sl.value == ()):
                return "bad", "[...] / [()] reads the whole dataset"
            if isinstance(sl, ast.Tuple) and not sl.elts:
                return "bad", "[()] reads the whole dataset"
            cur = p  # column / HDU selection: still a lazy handle
            continue
        if isinstance(p, ast.Call):
            fn = (dotted(p.func) or "").split(".")[-1]
            if fn == "len":
                return "ok", "len()"
            if cur in p.args or any(k.value is cur for k in p.keywords):
                tg = prog.resolve_call(f, p)
                if fn in ("asarray", "array", "list", "tuple", "concatenate", "DataFrame", "sorted", "iter"):
                    return "bad", f"passed to {fn}()"
                if tg.funcs():
                    # in-repo helper: fine if it only asks for the length
                    ok = all(_only_len(t) for t in tg.funcs())
                    return ("ok", f"passed to {fn}() which only takes len()") if ok else ("bad", f"passed to {fn}(), which does more with it than take its len() (the whole column may be read into memory)")
                return "unknown", f"passed to {fn}()"
            return "unknown", "call"
        if isinstance(p, (ast.List, ast.Tuple, ast.ListComp, ast.GeneratorExp, ast.comprehension)):
            if isinstance(p, ast.comprehension) and p.iter is cur:
                return "bad", "iterated"
            cur = p
            continue
        if isinstance(p, ast.For) and p.iter is cur:
            return "bad", "iterated"
        if isinstance(p, ast.Assign):
            # stored into another attribute / local: a derived handle (checked at its own uses)
            if all(isinstance(t, ast.Attribute) for t in p.targets):
                return "ok", "derived handle stored in an attribute"
            if all(isinstance(t, ast.Name) for t in p.targets):
                return _classify_local(prog, f, p.targets[0].id, pm)
            return "unknown", "assignment"
        if isinstance(p, ast.Return):
            return "unknown", "returned"
        return "unknown", type(p).__name__


def _classify_local(prog, f, name, pm):
    worst = ("ok", f"local {name} used through bounded slices only")
    for y in walk_no_nested(f.node):
        if isinstance(y, ast.Name) and y.id == name and isinstance(y.ctx, ast.Load):
            v, why = _classify_use(prog, f, y, pm)
            if v == "bad":
                return v, why
            if v == "unknown":
                worst = (v, why)
    return worst


def _only_len(t: FuncInfo) -> bool:
    """the helper touches the handles it is given (its parameters and the loop variables that run over them)
    only through len(): anything else (subscripts, numpy conversions, iteration of an element) may read the data"""
    params = set(t.param_names())
    elems = set(params)
    changed = True
    while changed:
        changed = False
        for x in walk_no_nested(t.node):
            if isinstance(x, (ast.For, ast.comprehension)) and any(isinstance(y, ast.Name) and y.id in elems for y in ast.walk(x.iter)):
                for y in ast.walk(x.target):
                    if isinstance(y, ast.Name) and y.id not in elems:
                        elems.add(y.id)
                        changed = True
            if isinstance(x, ast.Assign) and isinstance(x.value, ast.Call) and (dotted(x.value.func) or "") in ("next", "iter") and x.value.args and isinstance(x.value.args[0], ast.Name) and x.value.args[0].id in elems:
                for y in x.targets:
                    if isinstance(y, ast.Name) and y.id not in elems:
                        elems.add(y.id)
                        changed = True
    pm = parents_map(t.node)
    # elements handed to a local function through reduce / map / filter: that function's element parameter is a handle too
    nested = {f.name: f for f in ast.walk(t.node) if isinstance(f, ast.FunctionDef) and f is not t.node}
    via = {}  # nested function name -> index of the parameter that receives the elements
    for c in [y for y in walk_no_nested(t.node) if isinstance(y, ast.Call)]:
        fn = (dotted(c.func) or "").split(".")[-1]
        if fn in ("reduce", "map", "filter", "starmap") and len(c.args) >= 2 and isinstance(c.args[0], ast.Name) and c.args[0].id in nested:
            if any(isinstance(y, ast.Name) and y.id in elems for a_ in c.args[1:] for y in ast.walk(a_)):
                via[c.args[0].id] = 1 if fn == "reduce" else 0
    for name, idx in via.items():
        g = nested[name]
        if idx >= len(g.args.args):
            return False
        ep = g.args.args[idx].arg
        gpm = parents_map(g)
        for y in ast.walk(g):
            if isinstance(y, ast.Name) and y.id == ep and isinstance(y.ctx, ast.Load):
                q = gpm.get(id(y))
                if not (isinstance(q, ast.Call) and isinstance(q.func, ast.Name) and q.func.id == "len" and y in q.args):
                    return False
    for x in walk_no_nested(t.node):
        if not (isinstance(x, ast.Name) and x.id in elems and isinstance(x.ctx, ast.Load)):
            continue
        p = pm.get(id(x))
        if isinstance(p, ast.Call) and isinstance(p.func, ast.Name) and p.func.id in ("len", "iter", "next") and x in p.args:
            continue
        if isinstance(p, ast.Call) and (dotted(p.func) or "").split(".")[-1] in ("reduce", "map", "filter", "starmap") and isinstance(p.args[0], ast.Name) and p.args[0].id in via and x in p.args[1:]:
            continue
        gp = pm.get(id(p)) if isinstance(p, ast.Call) and isinstance(p.func, ast.Name) and p.func.id == "iter" else None
        if gp is not None:
            continue
        if isinstance(p, (ast.For, ast.comprehension)) and p.iter is x:
            continue
        if isinstance(p, ast.Compare) and all(isinstance(o, (ast.Is, ast.IsNot)) for o in p.ops):
            continue
        return False
    return any(isinstance(x, ast.Call) and isinstance(x.func, ast.Name) and x.func.id == "len" for x in ast.walk(t.node))


# ----------------------------------------------------------------------------- R2


def _counter_and_chunk(prog):
    """(counter text, chunk-size text, total text) discovered from the base __next__."""
    base = prog.find_class("DataChunkReader")
    nxt = base.methods.get("__next__")
    if nxt is None:
        raise AnalysisError("C18.R2: DataChunkReader.__next__ vanished")
    from ..inline import inlined

    nxt = inlined(prog, nxt, keep={"_get_next_chunk"})  # private predicates / helpers of the reader expanded in place
    incs = [x for x in walk_no_nested(nxt.node) if isinstance(x, ast.AugAssign) and isinstance(x.op, ast.Add) and isinstance(x.target, ast.Attribute)]
    # `self.n = self.n + C` and other re-assignments of the counter from itself count as its update; the amount is
    # what is added to the old value (the whole right side when it is not of the form old + amount)
    for x in walk_no_nested(nxt.node):
        if isinstance(x, ast.Assign) and len(x.targets) == 1 and isinstance(x.targets[0], ast.Attribute) and any(unparse(y) == unparse(x.targets[0]) for y in ast.walk(x.value)):
            v = x.value
            amount = v
            if isinstance(v, ast.BinOp) and isinstance(v.op, ast.Add):
                if unparse(v.left) == unparse(x.targets[0]):
                    amount = v.right
                elif unparse(v.right) == unparse(x.targets[0]):
                    amount = v.left
            pseudo = ast.AugAssign(target=x.targets[0], op=ast.Add(), value=amount)
            ast.copy_location(pseudo, x)
            pseudo._origin_stmt = x  # type: ignore[attr-defined]
            incs.append(pseudo)
    if not incs or len({unparse(x.target) for x in incs}) != 1:
        raise AnalysisError(f"C18.R2: counter increment in __next__ not recognised ({len(incs)} candidates)")
    return base, nxt, incs


def rule_r2(prog, res) -> None:
    """counter discipline and slice normal forms"""
    base, nxt, incs = _counter_and_chunk(prog)
    res.touch(nxt)
    inc = incs[0]
    N = unparse(inc.target)
    C = next((unparse(x) for x in ast.walk(nxt.node) if isinstance(x, ast.Attribute) and x.attr == "chunksize"), unparse(inc.value))
    cfg = cfg_of(nxt.node)
    # (1) increment is exactly +C (affine) and not inside a loop
    for i_ in incs:
        try:
            amount_ok = affine_eq(affine(i_.value), {C: 1})
        except Exception:  # noqa: BLE001 - not an affine amount (e.g. clipped with min(...))
            amount_ok = False
        if not amount_ok or "chunksize" not in C:
            res.violation(
                "C18.R2",
                nxt,
                getattr(i_, "_origin_stmt", i_),
                f"iteration counter is updated by {unparse(i_.value)[:60]}, not advanced by exactly the chunk size: the readers take the rows [counter - chunksize, counter), so the last chunk overlaps the previous one or starts before the first row",
                key_extra="increment-not-chunksize",
            )
        else:
            res.ok("C18.R2", res.site(nxt, norm_stmt(i_)), "counter advances by exactly one chunk size")
    inc_nodes = [n_ for i_ in incs for n_ in cfg.nodes_of(getattr(i_, "_origin_stmt", i_))]
    # exactly one increment on every path to a normal return
    for i_ in inc_nodes:
        after = cfg.reach([cfg.nodes[j] for j, lab in cfg.succ[i_.id] if lab != "e"], labels={"n", "t", "f", "loop", "exh"})
        if any(o.id in after for o in inc_nodes):
            res.violation("C18.R2", nxt, i_.ast, "the counter can be advanced twice for one chunk", key_extra="increment-twice")
    rets = [p for p, lab in cfg.pred[cfg.exit.id]]
    skip = cfg.reach([cfg.entry], avoid=lambda x: x in inc_nodes, labels={"n", "t", "f", "loop", "exh"})
    if cfg.exit.id in skip:
        res.violation("C18.R2", nxt, nxt.node, "__next__ can return without advancing the counter (ranks would disagree on the number of chunks)", key_extra="return-without-increment")
    reads = [n for n in cfg.nodes if any(isinstance(c.func, ast.Attribute) and c.func.attr == "_get_next_chunk" for c in n.calls())]
    if not reads:
        raise AnalysisError("C18.R2: __next__ does not call _get_next_chunk")
    if all(any(cfg.dominates(i, r) for i in inc_nodes) for r in reads) and not any(i.id in cfg.reach([i], labels={"n", "t", "f", "loop", "exh"}) - {i.id} and False for i in inc_nodes):
        # exactly once: no cycle through the increment
        cyc = any(i.id in cfg.reach([cfg.nodes[j] for j, _ in cfg.succ[i.id]]) for i in inc_nodes)
        if cyc:
            res.violation("C18.R2", nxt, inc, "counter increment sits in a loop: the counter can advance more than once per chunk", key_extra="increment-in-loop")
        else:
            res.ok("C18.R2", res.site(nxt, "increment dominates read"), "every path to _get_next_chunk passes the increment exactly once")
    else:
        res.violation("C18.R2", nxt, reads[0].ast, "a chunk can be read without the iteration counter having been advanced (the same slice is delivered again)", key_extra="read-without-increment")
    # increments on paths that return None (worker ranks) must also advance, i.e. the increment dominates every normal exit except StopIteration
    # (2) stop test evaluated at the boundary
    from .common import expand_locals

    tests = [(t, expand_locals(nxt.node, t.expr, set())) for t in cfg.nodes if t.kind == "test"]
    tests = [(t, tx) for t, tx in tests if N in unparse(tx)]
    stop_ok = False
    for t, tx in tests:
        total = None
        for x in ast.walk(tx):
            if isinstance(x, ast.Attribute) and "num_records" in x.attr:
                total = unparse(x)
        if total is None:
            continue
        try:
            below = bool(ceval(tx, {N: 9, total: 10, C: 3}))
            above = bool(ceval(tx, {N: 12, total: 10, C: 3}))
        except Unknown:
            continue
        raises_on_true = any(isinstance(cfg.nodes[j].ast, ast.Raise) for b, lab in cfg.succ[t.id] if lab == "t" for j, _ in cfg.succ[b])
        if not below and above and raises_on_true and all(cfg.dominates(t, i) for i in inc_nodes):
            stop_ok = True
        elif below:
            res.violation("C18.R2", nxt, t.ast, "iteration stops while records are left (stop test true for counter < number of records)", key_extra="stop-too-early")
            stop_ok = None
        elif not above:
            res.violation("C18.R2", nxt, t.ast, "iteration does not stop after the last record (reads beyond the end / never terminates)", key_extra="stop-too-late")
            stop_ok = None
    if stop_ok:
        res.ok("C18.R2", res.site(nxt, "stop test"), "StopIteration exactly when the counter has reached the number of records (evaluated at N=total-1 and N>total)")
    elif stop_ok is False:
        raise AnalysisError("C18.R2: stop test of __next__ not recognised")
    # (3) reset to zero in _reset_iter_state, and every __iter__ in the hierarchy resets
    rst = base.methods.get("_reset_iter_state")
    if rst is None:
        raise AnalysisError("C18.R2: _reset_iter_state vanished")
    zero = [x for x in walk_no_nested(rst.node) if isinstance(x, ast.Assign) and any(unparse(t) == N for t in x.targets)]
    if zero and all(isinstance(z.value, ast.Constant) and z.value.value == 0 for z in zero):
        res.ok("C18.R2", res.site(rst), "counter reset to 0")
    else:
        res.violation("C18.R2", rst, rst.node, "iteration counter is not reset to 0 at the start of a pass", key_extra="reset-not-zero")
    classes = [base] + prog.subclasses(base)
    for ci in classes:
        it = ci.methods.get("__iter__")
        if it is not None:
            res.touch(it)
            calls = [c for c in calls_in(it) if isinstance(c.func, ast.Attribute) and c.func.attr == "_reset_iter_state"]
            if calls:
                res.ok("C18.R2", res.site(it), "every pass starts with _reset_iter_state()")
            else:
                res.violation("C18.R2", it, it.node, "__iter__ does not reset the iteration state: a second pass starts where the first ended", key_extra="iter-no-reset")
        r2 = ci.methods.get("_reset_iter_state")
        if r2 is not None and ci is not base:
            sup = [c for c in calls_in(r2) if isinstance(c.func, ast.Attribute) and c.func.attr == "_reset_iter_state" and isinstance(c.func.value, ast.Call)]
            if sup:
                res.ok("C18.R2", res.site(r2), "override chains to the base reset")
            else:
                res.violation("C18.R2", r2, r2.node, "override of _reset_iter_state does not call the base reset (counter keeps its value)", key_extra="reset-override-no-super")
    # (4) slice normal forms in every sliced _get_next_chunk: decided on the substituted slice bounds
    # (locals, tuple-returning helpers and closures of nested functions are looked through)
    from .. import symx

    def is_bounded_self_slice(x) -> bool:
        return isinstance(x, ast.Subscript) and isinstance(x.slice, ast.Slice) and x.slice.lower is not None and x.slice.upper is not None and "self." in unparse(x.value)

    def sliced_reads(f: FuncInfo, binding=None, _depth=0):
        out = []
        paths = symx.explore(prog, f, inline=lambda caller, call, callee: callee.cls is not None and callee.name != "_get_next_chunk", watch=is_bounded_self_slice, binding=binding)
        for p in paths:
            for ev in p.events:
                if ev.kind == "expr":
                    out.append(ev)
                elif ev.kind == "def" and _depth < 2:
                    inner = next((g for g in f.module.all_funcs if g.node is ev.node), None)
                    if inner is not None:
                        out.extend(sliced_reads(inner, {k: v for k, v in (ev.store or {}).items() if k not in inner.param_names()}, _depth + 1))
        return out

    n_sliced = 0
    for ci in classes:
        m = ci.methods.get("_get_next_chunk")
        if m is None or m.is_abstract:
            continue
        seen_nodes = set()
        # callables handed to a shared chunk builder (lambda / functools.partial over a module helper) and the helper
        # methods of the reader are expanded in place first, so that the slice is seen where it is taken
        from ..inline import inlined as _inl

        try:
            m_an = _inl(prog, m, keep={"_get_next_chunk", "_load_groups", "_extract_chunk"}, desugar=True)
        except Exception:  # noqa: BLE001
            m_an = m
        for ev in sliced_reads(m_an):
            x = ev.expr
            first = id(ev.node) not in seen_nodes
            seen_nodes.add(id(ev.node))
            if first:
                n_sliced += 1
            res.touch(m)
            try:
                lo, hi = affine(x.slice.lower), affine(x.slice.upper)
            except Exception:  # noqa: BLE001 - a non-affine bound is itself not of the form [N-C, N)
                lo, hi = {unparse(x.slice.lower): 1}, {unparse(x.slice.upper): 1}
            if affine_eq(hi, {N: 1}) and affine_eq(lo, {N: 1, C: -1}):
                if first:
                    res.ok("C18.R2", res.site(m, unparse(ev.node)[:50]), f"slice normalises to [{fmt_affine(lo)}, {fmt_affine(hi)}) = [N-C, N)")
            else:
                res.violation(
                    "C18.R2",
                    m,
                    ev.node,
                    f"slice bounds normalise to [{fmt_affine(lo)}, {fmt_affine(hi)}) instead of [N-C, N) with N={N}, C={C}: "
                    "chunks overlap, leave gaps or exceed the chunk size",
                    key_extra=f"slice-form-{ci.name}",
                )
    if n_sliced < 3:
        raise AnalysisError(f"C18.R2: only {n_sliced} sliced reads found in _get_next_chunk implementations, minimum 3")
    # (5) parquet: remainder goes back to the left, delivered part is the complement
    pq = next((c for c in classes if "_extract_chunk" in c.methods), None)
    if pq is None:
        raise AnalysisError("C18.R2: row-group reader (_extract_chunk) vanished")
    from ..inline import inlined

    # private helpers of the reader (e.g. an extracted "pop cached groups" method) are expanded in place
    ex = inlined(prog, pq.methods["_extract_chunk"], keep={"_get_next_chunk", "_load_groups", "_extract_chunk"})
    res.touch(ex)
    resolve = single_def_resolver(ex.node)
    head = tail = None
    for x in walk_no_nested(ex.node):
        if isinstance(x, ast.Subscript) and isinstance(x.slice, ast.Slice) and x.slice.step is None:
            if x.slice.lower is None and x.slice.upper is not None:
                head = x
            elif x.slice.lower is not None and x.slice.upper is None:
                tail = x
    rets = [r for r in walk_no_nested(ex.node) if isinstance(r, ast.Return) and r.value is not None]
    pushed = [c for c in calls_in(ex) if isinstance(c.func, ast.Attribute) and c.func.attr in ("appendleft", "append", "insert", "extendleft", "extend")]
    ok = head is not None and tail is not None and unparse(head.value) == unparse(tail.value)
    ok = ok and affine_eq(affine(head.slice.upper, resolve), {C: 1}) and affine_eq(affine(tail.slice.lower, resolve), {C: 1})
    if not ok:
        res.violation("C18.R2", ex, ex.node, "delivered part and remainder of an over-full row-group cache are not complementary slices at the chunk size", key_extra="parquet-complement")
    else:
        ret_is_head = any(r.value is head or (isinstance(r.value, ast.Name) and any(v is head for v in all_def_values(ex.node, r.value.id))) for r in rets)
        push_tail = [c for c in pushed if c.args and (c.args[0] is tail or (isinstance(c.args[0], ast.Name) and any(v is tail for v in all_def_values(ex.node, c.args[0].id))))]
        if not ret_is_head or not push_tail:
            res.violation("C18.R2", ex, ex.node, "the first chunk-size rows are not what is returned, or the remainder is not pushed back", key_extra="parquet-head-tail")
        elif any(c.func.attr != "appendleft" for c in push_tail):
            res.violation("C18.R2", ex, push_tail[0], "the remainder of a row group is pushed to the right end of the cache: records are delivered out of order / after later groups", key_extra="parquet-remainder-right")
        else:
            res.ok("C18.R2", res.site(ex), "returns rows [:C], pushes rows [C:] back to the left of the cache")
    pops = [c for c in calls_in(ex) if isinstance(c.func, ast.Attribute) and c.func.attr in ("popleft", "pop")]
    if pops and all(c.func.attr == "popleft" for c in pops):
        res.ok("C18.R2", res.site(ex, "popleft"), "row groups are consumed from the left (file order)")
    else:
        res.violation("C18.R2", ex, ex.node, "row groups are not consumed in file order", key_extra="parquet-pop-order")
    lg = pq.methods.get("_load_groups")
    if lg is None:
        raise AnalysisError("C18.R2: _load_groups vanished")
    lg = inlined(prog, lg, keep={"_get_next_chunk", "_load_groups", "_extract_chunk", "_get_group_cache_size"})
    res.touch(lg)
    rr = [c for c in calls_in(lg) if isinstance(c.func, ast.Attribute) and c.func.attr == "read_row_group"]
    incs = [x for x in walk_no_nested(lg.node) if isinstance(x, ast.AugAssign) and isinstance(x.op, ast.Add) and isinstance(x.value, ast.Constant) and x.value.value == 1]
    apps = [c for c in calls_in(lg) if isinstance(c.func, ast.Attribute) and c.func.attr in ("append", "appendleft")]
    if len(rr) == 1 and len(incs) == 1 and rr[0].args and unparse(rr[0].args[0]) == unparse(incs[0].target) and apps and all(a.func.attr == "append" for a in apps):
        cfgl = cfg_of(lg.node)
        rn, inn = cfgl.node_containing(rr[0]), cfgl.nodes_of(incs[0])
        if rn and inn and all(cfgl.dominates(rn[0], i) for i in inn):
            res.ok("C18.R2", res.site(lg), "row group index advances by one after each successful read; groups appended on the right")
        else:
            res.violation("C18.R2", lg, incs[0], "row-group index is advanced without a successful read of that group", key_extra="group-idx-order")
    else:
        res.violation("C18.R2", lg, lg.node, "row groups are not read one by one in index order and appended on the right", key_extra="group-read-shape")
    gidx_reset = any(isinstance(x, ast.Assign) and any("_group_idx" in unparse(t) for t in x.targets) and isinstance(x.value, ast.Constant) and x.value.value == 0 for x in walk_no_nested(pq.methods["_reset_iter_state"].node)) if "_reset_iter_state" in pq.methods else False
    if gidx_reset:
        res.ok("C18.R2", res.site(pq.methods["_reset_iter_state"], "group index"), "row-group index and cache reset at the start of a pass")
    else:
        res.violation("C18.R2", ex, ex.node, "row-group index is not reset to 0 at the start of a pass", key_extra="group-idx-reset")
    # (6) random reader: size of the last chunk
    rnd = next((c for c in classes if c.name == "RandomReader" or "generator" in (c.methods.get("__init__").param_names() if c.methods.get("__init__") else [])), None)
    if rnd is None:
        raise AnalysisError("C18.R2: random reader vanished")
    g = rnd.methods["_get_next_chunk"]
    res.touch(g)
    _check_last_chunk(prog, res, g, N, C)


def _check_last_chunk(prog, res, g: FuncInfo, N: str, C: str) -> None:
    """paths through the (loop-free) function; size handed to the generator is C on full chunks
    and C - (N - total) once the counter passed the total"""
    from .. import symx

    # decided on the symbolic store: helper methods of the reader (size of the next chunk, end-of-data test) are looked through
    paths = [p for p in symx.explore(prog, g, inline=lambda caller, call, callee: callee.cls is not None and callee.name not in ("_get_next_chunk", "get_probe", "__call__")) if p.outcome == "return"]
    total = None
    for p in paths:
        for e in [t for t, _ in p.literals()] + ([p.value] if p.value is not None else []):
            for x in ast.walk(e):
                if isinstance(x, ast.Attribute) and "num_records" in x.attr:
                    total = unparse(x)
    if total is None:
        res.violation("C18.R2", g, g.node, "the random reader never compares its counter with the requested number of records: the last chunk is not truncated and the catalog is larger than requested", key_extra="random-no-truncation")
        return
    if not paths:
        raise AnalysisError("C16.R4: random reader returns nothing")
    for p in paths:
        ret = p.value
        if not (isinstance(ret, ast.Call) and ret.args):
            raise AnalysisError("C16.R4: random reader does not return generator(size)")
        try:
            size = affine(ret.args[0])
        except Exception:  # noqa: BLE001
            size = {unparse(ret.args[0]): 1}
        # classify the path: counter beyond total or not
        beyond = None
        for test, pol in p.literals():
            try:
                t_b = bool(ceval(test, {N: 12, total: 10}))
                t_i = bool(ceval(test, {N: 9, total: 10}))
            except Unknown:
                continue
            if t_b != t_i:
                beyond = (t_b == pol)
        want = {C: 1, N: -1, total: 1} if beyond else {C: 1}
        label = "last (partial) chunk" if beyond else "full chunk"
        if affine_eq(size, want):
            res.ok("C18.R2", res.site(g, label), f"generator is asked for {fmt_affine(size)} records")
        else:
            res.violation(
                "C18.R2",
                g,
                ret,
                f"on the path of a {label} the generator is asked for {fmt_affine(size)} records, expected {fmt_affine(want)}: the random catalog does not have exactly the requested size",
                key_extra=f"random-{'last' if beyond else 'full'}-chunk-size",
            )
    if not any(p.conds for p in paths):
        res.violation("C18.R2", g, g.node, "the random reader never truncates the last chunk", key_extra="random-no-truncation")


# ----------------------------------------------------------------------------- R3


def rule_r3(prog, res) -> None:
    """exactly one ingest pass, at most one probe pass guarded by the create mode"""
    cat = prog.find_class("Catalog")
    ctors = [m for n, m in cat.methods.items() if n.startswith("from_") and m.is_classmethod]
    if len(ctors) < 3:
        raise AnalysisError("C18.R3: catalog constructors vanished")
    for m in ctors:
        res.touch(m)
        cfg = cfg_of(m.node)
        wp = [n for n in cfg.nodes if any(any(t.name.startswith("write_patches") for t in prog.resolve_call(m, c).funcs()) for c in n.calls())]
        probes = [n for n in cfg.nodes if any(any(t.name in ("create_patch_centers", "get_probe") for t in prog.resolve_call(m, c).funcs()) for c in n.calls())]
        in_loop = lambda n: n.id in cfg.reach([cfg.nodes[j] for j, _ in cfg.succ[n.id]])  # noqa: E731
        if len(wp) != 1 or in_loop(wp[0]):
            res.violation("C18.R3", m, (wp[0].ast if wp else m.node), f"{len(wp)} ingest passes (write_patches calls{' in a loop' if wp and in_loop(wp[0]) else ''}) instead of exactly one", key_extra="ingest-pass-count")
        else:
            res.ok("C18.R3", res.site(m, "write_patches"), "exactly one ingest pass")
        if len(probes) > 1 or any(in_loop(p) for p in probes):
            res.violation("C18.R3", m, probes[0].ast, "more than one probe pass over the input", key_extra="probe-pass-count")
        for p in probes:
            g = [(t, pol) for t, pol in cfg.guards(p)]
            if any("create" in unparse(t) and pol for t, pol in g):
                res.ok("C18.R3", res.site(m, "probe pass"), "the extra pass is control-dependent on mode == PatchMode.create")
            else:
                res.violation("C18.R3", m, p.ast, "the extra probe pass over the input is not restricted to patch-centre generation", key_extra="probe-unguarded")
    # the pipelines iterate the reader exactly once
    wps = [f for f in prog.funcs if f.name.startswith("write_patches")] + prog.find_funcs("chunk_processing_task")
    n = 0
    for f in wps:
        loops = [x for x in walk_no_nested(f.node) if isinstance(x, (ast.For, ast.comprehension)) and ("chunk_iter" in unparse(x.iter) or "reader" in unparse(x.iter))]
        if not loops:
            continue
        n += 1
        res.touch(f)
        pm = parents_map(f.node)
        nested = False
        for lp in loops:
            cur = pm.get(id(lp))
            while cur is not None:
                if isinstance(cur, (ast.For, ast.While)):
                    nested = True
                cur = pm.get(id(cur))
        if len(loops) == 1 and not nested:
            res.ok("C18.R3", res.site(f, "chunk loop"), "the reader is iterated by exactly one un-nested loop")
        else:
            res.violation("C18.R3", f, loops[0], "the reader is iterated more than once per ingest", key_extra="reader-iterated-twice")
    if n < 3:
        raise AnalysisError(f"C18.R3: only {n} ingest loops found, minimum 3")
    # get_probe of file readers: one pass through iter(self), nothing else touches the source
    dr = prog.find_class("DataReader")
    gp = dr.methods.get("get_probe")
    if gp is None:
        raise AnalysisError("C18.R3: DataReader.get_probe vanished")
    res.touch(gp)
    # every place where the reader itself is iterated, followed through the helpers / closures / generators that
    # get_probe hands `self` or `iter(self)` to (any module-local function, resolved precisely)
    sites, repeated = _reader_iteration_sites(prog, gp)
    if len(sites) == 1 and not repeated:
        res.ok("C18.R3", res.site(gp), f"probe gathered chunk-wise in one pass over iter(self) ({sites[0]})")
    else:
        res.violation("C18.R3", gp, gp.node, "the sparse probe is not gathered in a single chunk-wise pass" + (f" ({len(sites)} iteration sites: {', '.join(sites)})" if sites else ""), key_extra="probe-shape")


ITER_CONSUMERS = {"list", "tuple", "sorted", "sum", "max", "min", "any", "all", "concatenate", "fromiter", "vstack", "hstack", "stack", "set", "frozenset", "dict", "deque", "reduce", "chain", "enumerate", "zip", "map", "filter", "islice"}


def _reader_iteration_sites(prog, gp: FuncInfo):
    """-> (labels of the sites that iterate the reader, True when a site / the call chain to it sits in a loop)"""
    sites: list[str] = []
    repeated = [False]
    seen: set = set()

    def visit(f: FuncInfo, names: set, in_loop: bool, depth: int) -> None:
        """names: local names of f that denote the reader or an iterator over it"""
        if depth > 6 or (f.qualname, tuple(sorted(names))) in seen:
            return
        seen.add((f.qualname, tuple(sorted(names))))
        pm = parents_map(f.node)

        def denotes(e) -> bool:
            if isinstance(e, ast.Name):
                return e.id in names
            if isinstance(e, ast.Call) and isinstance(e.func, ast.Name) and e.func.id in ("iter", "enumerate") and len(e.args) == 1:
                return denotes(e.args[0])
            return False

        def looped(node) -> bool:
            cur = pm.get(id(node))
            prev = node
            while cur is not None and cur is not f.node:
                if isinstance(cur, (ast.For, ast.While)) and prev is not cur.iter if isinstance(cur, ast.For) else isinstance(cur, ast.While):
                    return True
                if isinstance(cur, (ast.ListComp, ast.GeneratorExp, ast.SetComp, ast.DictComp)) and not any(prev is g or prev is g.iter for g in cur.generators[:1]):
                    return True
                if isinstance(cur, (ast.FunctionDef, ast.Lambda)):
                    break
                prev, cur = cur, pm.get(id(cur))
            return False

        # aliases: x = iter(self)
        changed = True
        while changed:
            changed = False
            for st in walk_no_nested(f.node):
                if isinstance(st, ast.Assign) and len(st.targets) == 1 and isinstance(st.targets[0], ast.Name) and denotes(st.value) and st.targets[0].id not in names:
                    names.add(st.targets[0].id)
                    changed = True
        inner = {g.name: g for g in f.module.all_funcs if g.parent is f}
        for x in walk_no_nested(f.node):
            if isinstance(x, ast.For) and denotes(x.iter):
                sites.append(f"for-loop in {f.qualname}")
                repeated[0] |= in_loop or looped(x)
            elif isinstance(x, (ast.ListComp, ast.GeneratorExp, ast.SetComp, ast.DictComp)):
                for g in x.generators:
                    if denotes(g.iter):
                        sites.append(f"comprehension in {f.qualname}")
                        repeated[0] |= in_loop or looped(x) or g is not x.generators[0]
            elif isinstance(x, ast.Call):
                hit = [(i, a) for i, a in enumerate(x.args) if denotes(a)] + [(k.arg, k.value) for k in x.keywords if k.arg and denotes(k.value)]
                if not hit:
                    if isinstance(x.func, ast.Name) and x.func.id in inner:  # a closure sees the enclosing names
                        t = inner[x.func.id]
                        visit(t, set(names) - set(t.param_names()), in_loop or looped(x), depth + 1)
                    continue
                fnm = (dotted(x.func) or unparse(x.func)).split(".")[-1]
                if isinstance(x.func, ast.Name) and x.func.id in ("iter", "enumerate") and len(x.args) == 1:
                    continue  # still the iterator (judged where it is consumed)
                tgs = []
                if isinstance(x.func, ast.Name) and x.func.id in inner:
                    tgs = [inner[x.func.id]]
                else:
                    r = prog.resolve_call(f, x)
                    tgs = [t for t in r.funcs() if getattr(r, "precise", True) and t.module.name.split(".")[0] == f.module.name.split(".")[0]]
                if tgs:
                    for t in tgs:
                        ps = [a.arg for a in t.node.args.posonlyargs + t.node.args.args]
                        if ps and ps[0] in ("self", "cls") and isinstance(x.func, ast.Attribute):
                            ps = ps[1:]
                        bound = {ps[i] if isinstance(i, int) and i < len(ps) else i for i, _ in hit if not isinstance(i, int) or i < len(ps)}
                        if t.parent is f:
                            bound |= set(names) - set(t.param_names())
                        visit(t, set(bound), in_loop or looped(x), depth + 1)
                elif fnm in ITER_CONSUMERS:
                    sites.append(f"{fnm}() in {f.qualname}")
                    repeated[0] |= in_loop or looped(x)
                # any other call that receives the reader: the reader's own methods (len, schema) do not iterate it
        # methods of the reader called on self: followed with self bound
        if "self" in names:
            for c in calls_in(f):
                if isinstance(c.func, ast.Attribute) and isinstance(c.func.value, ast.Name) and c.func.value.id == "self" and c.func.attr.startswith("_") and not c.func.attr.startswith("__"):
                    r = prog.resolve_call(f, c)
                    for t in r.funcs():
                        if t.module is f.module and t is not f:
                            visit(t, {"self"}, in_loop or looped(c), depth + 1)

    visit(gp, {"self"}, False, 0)
    return sites, repeated[0]


def _fold_value(e: ast.AST, env: dict):
    """constant folding with Python's value semantics (`a or b` gives an operand, not a truth value) of an expression
    made of names, self.<x> / self._<x> (read as the name x), literals, arithmetic, comparisons, and / or / not,
    conditional expressions and min / max / int / len-free calls.  Anything else raises."""
    if isinstance(e, ast.Constant):
        return e.value
    if isinstance(e, ast.Name):
        return env[e.id]
    if isinstance(e, ast.Attribute) and isinstance(e.value, ast.Name) and e.value.id == "self":
        return env[e.attr.lstrip("_")]
    if isinstance(e, ast.BoolOp):
        v = None
        for x in e.values:
            v = _fold_value(x, env)
            if (isinstance(e.op, ast.Or) and v) or (isinstance(e.op, ast.And) and not v):
                return v
        return v
    if isinstance(e, ast.UnaryOp) and isinstance(e.op, ast.Not):
        return not _fold_value(e.operand, env)
    if isinstance(e, ast.IfExp):
        return _fold_value(e.body if _fold_value(e.test, env) else e.orelse, env)
    if isinstance(e, ast.Compare) and len(e.ops) == 1:
        a, b = _fold_value(e.left, env), _fold_value(e.comparators[0], env)
        return {ast.Is: a is b, ast.IsNot: a is not b, ast.Eq: a == b, ast.NotEq: a != b}.get(type(e.ops[0])) if isinstance(e.ops[0], (ast.Is, ast.IsNot, ast.Eq, ast.NotEq)) else {ast.Lt: a < b, ast.LtE: a <= b, ast.Gt: a > b, ast.GtE: a >= b}[type(e.ops[0])]
    if isinstance(e, ast.BinOp):
        a, b = _fold_value(e.left, env), _fold_value(e.right, env)
        return {ast.Add: lambda: a + b, ast.Sub: lambda: a - b, ast.Mult: lambda: a * b, ast.FloorDiv: lambda: a // b, ast.Div: lambda: a / b}[type(e.op)]()
    if isinstance(e, ast.Call) and isinstance(e.func, ast.Name) and e.func.id in ("min", "max", "int") and not e.keywords:
        return {"min": min, "max": max, "int": int}[e.func.id](*[_fold_value(a, env) for a in e.args])
    raise ValueError(unparse(e))


def rule_r4(prog, res) -> None:
    """the configured chunk size reaches the iteration state of every reader"""
    base = prog.find_class("DataChunkReader")
    n = 0
    for ci in prog.subclasses(base):
        init = ci.methods.get("__init__")
        if init is None or "chunksize" not in init.param_names():
            continue
        n += 1
        res.touch(init)
        sup = [c for c in calls_in(init) if isinstance(c.func, ast.Attribute) and c.func.attr == "__init__" and isinstance(c.func.value, ast.Call) and isinstance(c.func.value.func, ast.Name) and c.func.value.func.id == "super"]
        stores = [x for x in walk_no_nested(init.node) if isinstance(x, ast.Assign) and any(unparse(t) == "self.chunksize" for t in x.targets)]
        if sup:
            k = kwarg(sup[0], "chunksize")
            if k is None or not (isinstance(k, ast.Name) and k.id == "chunksize"):
                res.violation(
                    "C18.R4",
                    init,
                    sup[0],
                    f"{ci.name} does not forward chunksize= to the base reader, whose constructor then resets the chunk size to the default (16.7 M records): the input is read in one piece",
                    key_extra=f"chunksize-not-forwarded-{ci.name}",
                )
                continue
        elif not stores:
            res.violation("C18.R4", init, init.node, f"{ci.name} never stores the configured chunk size", key_extra=f"chunksize-unused-{ci.name}")
            continue
        for s in stores:
            names = {x.id for x in ast.walk(s.value) if isinstance(x, ast.Name)}
            if "chunksize" not in names:
                res.violation("C18.R4", init, s, f"{ci.name}.chunksize is set to {unparse(s.value)}, independent of the requested chunk size", key_extra=f"chunksize-ignored-{ci.name}")
                break
            # folded: a requested size that is smaller than the input and the default is what is stored; without a
            # request the default (capped by the input size) is
            vals = {}
            for kk, e_ in {"req": {"chunksize": 7}, "none": {"chunksize": None}}.items():
                try:
                    vals[kk] = _fold_value(s.value, {"CHUNKSIZE": 1000, "num_records": 50, **e_})
                except TypeError:
                    vals[kk] = "a TypeError"  # (e.g. min(50, None))
                except Exception:  # noqa: BLE001 - not a plain arithmetic / selection expression: no verdict from this clause
                    vals = None
                    break
            if vals is None:
                continue
            if vals["req"] != 7 or vals["none"] not in (1000, 50):
                res.violation("C18.R4", init, s, f"{ci.name}.chunksize = {unparse(s.value)} gives {vals['req']} for a requested chunk size of 7 (default 1000, 50 records) and {vals['none']} without a request: the configured bound on the chunk size is not what the reader uses", key_extra=f"chunksize-value-{ci.name}")
                break
        else:
            res.ok("C18.R4", res.site(init), "chunksize parameter is stored / forwarded to the base reader")
    if n < 5:
        raise AnalysisError(f"C18.R4: only {n} reader constructors with a chunksize parameter, minimum 5")


def rule_r5(prog, res) -> None:
    """loops that fill a cache or drain a queue make progress towards their own test: the condition of every `while`
    loop depends on something the body changes (a name or attribute it stores, or a call / assignment expression that
    is re-evaluated) — a size that is computed once before the loop and never updated keeps the loop running until an
    exception ends it, i.e. the reader pulls the whole remaining input into memory for one chunk. `while True` loops
    need a break / return."""
    n = 0
    for fi in prog.funcs:
        for x in walk_no_nested(fi.node):
            if not isinstance(x, ast.While):
                continue
            n += 1
            res.touch(fi)
            t = x.test
            leaves = any(isinstance(y, (ast.Break, ast.Return)) for b in x.body for y in ast.walk(b))
            if isinstance(t, ast.Constant):
                if leaves or not t.value:
                    res.ok("C18.R5", res.site(fi, f"while {unparse(t)}"), "constant test with an explicit exit", nontrivial=False)
                else:
                    res.violation("C18.R5", fi, x, "`while True` without break / return: the loop can only end through an exception", key_extra=f"while-true-no-exit-{fi.qualname}")
                continue
            reevaluated = any(isinstance(y, (ast.Call, ast.NamedExpr, ast.Await)) for y in ast.walk(t))
            names = {y.id for y in ast.walk(t) if isinstance(y, ast.Name)}
            attrs = {y.attr for y in ast.walk(t) if isinstance(y, ast.Attribute)}
            stored = {y.id for b in x.body for y in ast.walk(b) if isinstance(y, ast.Name) and isinstance(y.ctx, (ast.Store, ast.Del))}
            stored_attr = {y.attr for b in x.body for y in ast.walk(b) if isinstance(y, ast.Attribute) and isinstance(y.ctx, (ast.Store, ast.Del))}
            # in-place mutation of a tested container (append / pop / clear …) also changes the test
            mutated = {y.func.value.id for b in x.body for y in ast.walk(b) if isinstance(y, ast.Call) and isinstance(y.func, ast.Attribute) and isinstance(y.func.value, ast.Name) and y.func.attr in ("append", "pop", "popleft", "clear", "extend", "remove", "add", "discard", "update", "appendleft")}
            if reevaluated or names & (stored | mutated) or attrs & stored_attr:
                res.ok("C18.R5", res.site(fi, f"while {unparse(t)[:40]}"), "the loop test depends on what the body changes", nontrivial=False)
            else:
                res.violation(
                    "C18.R5",
                    fi,
                    x,
                    f"the test `{unparse(t)[:60]}` of this loop is not changed by its body (its names {sorted(names)} are never stored there and nothing in it is re-evaluated): "
                    + ("the loop ends only when an exception is raised — e.g. every remaining row group is read into memory for one chunk" if not leaves else "only the break / return can end it; the stated bound is not what limits the loop"),
                    key_extra=f"loop-test-invariant-{fi.qualname}",
                )
    if n < 5:
        raise AnalysisError(f"C18.R5: only {n} while loops found in the package, minimum 5")


def rule_r6(prog, res) -> None:
    """the configured chunk size reaches every reader that is opened (shared with C09.R7, same-name option
    forwarding): an auxiliary reader — e.g. one opened only for the probe pass — that is constructed without the
    caller's `chunksize` reads with the default chunk size, i.e. in chunks of millions of rows"""
    from . import c09
    from .common import shared_rule

    shared_rule(res, c09.rule_r7, "C09", "C09.R7", "C18.R6")


MUTATORS = {"append", "appendleft", "extend", "extendleft", "pop", "popleft", "clear", "insert", "remove", "update", "add", "discard", "rotate", "sort", "reverse"}


def rule_r7(prog, res) -> None:
    """a new pass starts from a clean iteration state: every attribute of the reader that producing a chunk changes
    (assigned, augmented, or mutated in place through append / popleft / …, in `__next__` and everything it reaches on
    self) is re-initialised by what `__iter__` runs first (`_reset_iter_state` and the overrides / super calls it
    reaches).  A read-ahead buffer that survives a partial pass is delivered again at the head of the next pass: the
    chunks shift, records at the end are never requested, nothing raises."""
    base = prog.find_class("DataChunkReader")
    n = 0
    for ci in prog.subclasses(base):
        nxt = prog.find_method(ci, "__next__")
        it = prog.find_method(ci, "__iter__")
        if nxt is None or it is None or nxt.is_abstract:
            continue
        concrete = prog.find_method(ci, "_get_next_chunk")
        if concrete is None or concrete.is_abstract:
            continue

        def closure(start):
            seen, todo = [], [start]
            while todo:
                m = todo.pop()
                if m in seen:
                    continue
                seen.append(m)
                for c in calls_in(m):
                    f = c.func
                    if isinstance(f, ast.Attribute) and isinstance(f.value, ast.Name) and f.value.id == "self":
                        t = prog.find_method(ci, f.attr)
                        if t is not None and not t.is_property:
                            todo.append(t)
                    elif isinstance(f, ast.Attribute) and isinstance(f.value, ast.Call) and isinstance(f.value.func, ast.Name) and f.value.func.id == "super" and m.cls is not None:
                        t = prog.find_method(m.cls, f.attr, after=m.cls)
                        if t is not None:
                            todo.append(t)
            return seen

        def assigned(ms):
            out = {}
            for m in ms:
                for x in walk_no_nested(m.node):
                    tgts = x.targets if isinstance(x, ast.Assign) else [x.target] if isinstance(x, (ast.AugAssign, ast.AnnAssign)) else []
                    for t in tgts:
                        for y in ast.walk(t):
                            if isinstance(y, ast.Attribute) and isinstance(y.ctx, ast.Store) and isinstance(y.value, ast.Name) and y.value.id == "self":
                                out.setdefault(y.attr, (m, x))
            return out

        def mutated(ms):
            out = assigned(ms)
            for m in ms:
                for c in calls_in(m):
                    f = c.func
                    if isinstance(f, ast.Attribute) and f.attr in MUTATORS and isinstance(f.value, ast.Attribute) and isinstance(f.value.value, ast.Name) and f.value.value.id == "self":
                        out.setdefault(f.value.attr, (m, c))
            return out

        step = closure(nxt)
        reset_ms = [m for m in closure(it) if m is not it and m not in step] or closure(it)
        # (what __iter__ runs before handing out the iterator; methods shared with the step are not a reset)
        changed = mutated(step)
        reset = assigned(reset_ms)
        n += 1
        res.touch(nxt)
        missing = sorted(a for a in changed if a not in reset)
        if missing:
            m_, x_ = changed[missing[0]]
            res.violation(
                "C18.R7",
                m_,
                x_,
                f"{ci.name}: producing a chunk changes self.{missing[0]} but starting a pass (`__iter__` -> {', '.join(sorted({m.qualname for m in reset_ms}))[:80]}) does not re-initialise it: after a partial pass (a peek, a break, an exception) "
                "the next pass over the same reader starts with the leftovers — records are delivered twice and the same number at the end is never read",
                key_extra=f"iter-state-not-reset-{ci.name}-{missing[0]}",
            )
        else:
            res.ok("C18.R7", res.site(nxt, ci.name), f"every attribute changed while producing a chunk ({sorted(changed)}) is re-initialised at the start of a pass")
    if n < 4:
        raise AnalysisError(f"C18.R7: only {n} concrete chunk readers analysed, minimum 4")


CONSUMING = {"read_row_group", "read_row_groups", "popleft", "pop", "get", "read", "readline", "next", "__next__", "recv"}


def rule_r8(prog, res) -> None:
    """nothing that a reader takes out of its source or its read-ahead buffer is dropped: in everything `__next__` reaches
    on self, (a) the value of a consuming call (a row group read from the file, an item popped from the cache) is used
    afterwards, and (b) the part of an over-full buffer that does not fit the chunk (`x[chunksize:]`) is pushed back
    whenever it holds at least one record (the guard is folded for lengths 0 and 1).  A dropped row group or a dropped
    one-record remainder shortens the catalog silently."""
    base = prog.find_class("DataChunkReader")
    n = 0
    for ci in prog.subclasses(base):
        nxt = prog.find_method(ci, "__next__")
        if nxt is None or nxt.is_abstract:
            continue
        seen, todo = [], [nxt]
        while todo:
            m = todo.pop()
            if m in seen:
                continue
            seen.append(m)
            for c in calls_in(m):
                f = c.func
                if isinstance(f, ast.Attribute) and isinstance(f.value, ast.Name) and f.value.id == "self":
                    t = prog.find_method(ci, f.attr)
                    if t is not None and not t.is_property:
                        todo.append(t)
        for m in seen:
            if m.cls is not ci and m.cls is not None and ci.name != m.cls.name and m.cls in [k for k in prog.mro(ci)] and any(m in s2 for s2 in []):
                continue
            for x in walk_no_nested(m.node):
                if isinstance(x, ast.Assign) and len(x.targets) == 1 and isinstance(x.targets[0], ast.Name) and isinstance(x.value, ast.Call) and isinstance(x.value.func, ast.Attribute) and x.value.func.attr in CONSUMING and "self" in unparse(x.value.func.value):
                    nm = x.targets[0].id
                    n += 1
                    res.touch(m)
                    # a use that keeps the data: handed to a call other than a size query, returned / yielded, stored
                    pmm = parents_map(m.node)
                    used = False
                    for y in ast.walk(m.node):
                        if isinstance(y, ast.Name) and y.id == nm and isinstance(y.ctx, ast.Load):
                            cur = pmm.get(id(y))
                            while cur is not None and not isinstance(cur, ast.stmt):
                                if isinstance(cur, ast.Call) and (dotted(cur.func) or unparse(cur.func)).split(".")[-1] not in ("len", "isinstance", "type", "debug", "info", "print"):
                                    used = True
                                cur = pmm.get(id(cur))
                            if isinstance(cur, (ast.Return, ast.Assign, ast.AnnAssign)) or (isinstance(cur, ast.Expr) and isinstance(cur.value, (ast.Yield, ast.YieldFrom))):
                                if not (isinstance(cur, ast.Assign) and cur is x):
                                    used = used or not isinstance(cur, ast.AugAssign)
                    if used:
                        res.ok("C18.R8", res.site(m, f"{ci.name}: {nm}"), f"the value taken by {unparse(x.value.func)[:40]}() is used")
                    else:
                        res.violation("C18.R8", m, x, f"{ci.name}: `{unparse(x)[:70]}` takes data out of the source / the read-ahead buffer and drops it: those records never reach a chunk, the catalog is short without any error", key_extra=f"consumed-dropped-{m.name}-{nm}")
            # (b) remainders
            rem = {}
            for x in walk_no_nested(m.node):
                if isinstance(x, ast.Assign) and len(x.targets) == 1 and isinstance(x.targets[0], ast.Name) and isinstance(x.value, ast.Subscript) and isinstance(x.value.slice, ast.Slice) and x.value.slice.lower is not None and x.value.slice.upper is None and "chunksize" in unparse(x.value.slice.lower):
                    rem[x.targets[0].id] = x
            for x in walk_no_nested(m.node):
                if isinstance(x, ast.If):
                    names = {y.id for y in ast.walk(x.test) if isinstance(y, ast.Name)} & set(rem)
                    if not names:
                        continue
                    nm = next(iter(names))
                    pushes = any(isinstance(c, ast.Call) and isinstance(c.func, ast.Attribute) and c.func.attr in ("appendleft", "append", "insert", "extendleft") and any(isinstance(y, ast.Name) and y.id == nm for a in c.args for y in ast.walk(a)) for s_ in x.body for c in ast.walk(s_))
                    if not pushes:
                        continue
                    n += 1
                    res.touch(m)
                    try:
                        tab = {k_: bool(ceval(x.test, {f"len({nm})": k_, nm: list(range(k_)), f"{nm}.num_rows": k_})) for k_ in (0, 1, 2)}
                    except Unknown:
                        raise AnalysisError(f"C18.R8: cannot fold the remainder guard `{unparse(x.test)}` in {m.short}") from None
                    if tab[1] and tab[2]:
                        res.ok("C18.R8", res.site(m, f"{ci.name}: remainder {nm}"), f"`{unparse(x.test)}` pushes every non-empty remainder back ({tab})")
                    else:
                        res.violation("C18.R8", m, x, f"{ci.name}: the remainder `{nm}` of an over-full buffer is only pushed back when `{unparse(x.test)}` ({tab} for lengths 0, 1, 2): a remainder of one record is dropped, the catalog is one record short for every such chunk", key_extra=f"remainder-dropped-{m.name}")
            for nm, x in rem.items():
                if not any(isinstance(c, ast.Call) and isinstance(c.func, ast.Attribute) and c.func.attr in ("appendleft", "append", "insert", "extendleft") and any(isinstance(y, ast.Name) and y.id == nm for a in c.args for y in ast.walk(a)) for c in ast.walk(m.node)):
                    n += 1
                    res.violation("C18.R8", m, x, f"{ci.name}: the remainder `{unparse(x)[:50]}` of an over-full buffer is never pushed back: what does not fit the chunk is lost", key_extra=f"remainder-never-pushed-{m.name}")
    if n < 2:
        raise AnalysisError(f"C18.R8: only {n} consuming reads / remainders found in the readers, minimum 2")


RULES = [
    ("C18.R1", rule_r1, QUICK),
    ("C18.R2", rule_r2, QUICK),
    ("C18.R3", rule_r3, QUICK),
    ("C18.R4", rule_r4, QUICK),
    ("C18.R5", rule_r5, QUICK),
    ("C18.R6", rule_r6, QUICK),
    ("C18.R7", rule_r7, QUICK),
    ("C18.R8", rule_r8, QUICK),
]
