"""A5: abstract effects of calls (file system, IPC, MPI, RNG) and helpers to name files.

The tables below are the trusted semantics of library calls; they were filled from the
call sites that exist in this repository and from the libraries' documentation.
"""

from __future__ import annotations

import ast
from dataclasses import dataclass

from .cfg import CFG, Node, cfg_of
from .dataflow import all_def_values
from .model import (
    AnalysisError,
    ClassInfo,
    External,
    FuncInfo,
    GlobalVar,
    Program,
    dotted,
    unparse,
    walk_no_nested,
)

# ----------------------------------------------------------------------------- file names


def const_str(prog: Program, fi: FuncInfo, expr: ast.AST, depth: int = 4) -> str | None:
    """Constant string value of an expression (literal, module constant, single local def)."""
    if isinstance(expr, ast.Constant) and isinstance(expr.value, str):
        return expr.value
    if depth <= 0:
        return None
    if isinstance(expr, ast.BinOp) and isinstance(expr.op, ast.Add):
        a, b = const_str(prog, fi, expr.left, depth - 1), const_str(prog, fi, expr.right, depth - 1)
        return a + b if a is not None and b is not None else None
    if isinstance(expr, ast.JoinedStr):
        parts = []
        for v in expr.values:
            if isinstance(v, ast.Constant):
                parts.append(str(v.value))
            elif isinstance(v, ast.FormattedValue) and v.format_spec is None:
                p = const_str(prog, fi, v.value, depth - 1)
                if p is None:
                    return None
                parts.append(p)
            else:
                return None
        return "".join(parts)
    if isinstance(expr, ast.Name):
        vals = all_def_values(fi.node, expr.id)
        if len(vals) == 1 and vals[0] is not None and expr.id not in fi.param_names():
            return const_str(prog, fi, vals[0], depth - 1)
        if not vals:
            for d in prog.lookup(fi.module, expr.id, fi.variant):
                if isinstance(d, GlobalVar) and d.value is not None:
                    if isinstance(d.value, ast.Constant) and isinstance(d.value.value, str):
                        return d.value.value
                    # a module constant computed from other module constants (NAME + ".tmp", f"{NAME}.tmp")
                    v = _module_const_str(prog, fi.module, d.value, fi.variant, depth - 1)
                    if v is not None:
                        return v
    if isinstance(expr, ast.Attribute):
        for d in prog.resolve_expr_static(fi.module, expr, fi.variant):
            if isinstance(d, GlobalVar) and isinstance(d.value, ast.Constant) and isinstance(d.value.value, str):
                return d.value.value
    return None


def _module_const_str(prog: Program, mod, expr: ast.AST, variant, depth: int) -> str | None:
    if depth <= 0 or expr is None:
        return None
    if isinstance(expr, ast.Constant) and isinstance(expr.value, str):
        return expr.value
    if isinstance(expr, ast.BinOp) and isinstance(expr.op, ast.Add):
        a, b = _module_const_str(prog, mod, expr.left, variant, depth - 1), _module_const_str(prog, mod, expr.right, variant, depth - 1)
        return a + b if a is not None and b is not None else None
    if isinstance(expr, ast.JoinedStr):
        parts = []
        for v in expr.values:
            if isinstance(v, ast.Constant):
                parts.append(str(v.value))
            elif isinstance(v, ast.FormattedValue) and v.format_spec is None:
                p = _module_const_str(prog, mod, v.value, variant, depth - 1)
                if p is None:
                    return None
                parts.append(p)
            else:
                return None
        return "".join(parts)
    if isinstance(expr, ast.Name):
        for d in prog.lookup(mod, expr.id, variant):
            if isinstance(d, GlobalVar) and d.value is not None:
                return _module_const_str(prog, mod, d.value, variant, depth - 1)
    return None


def _enclosing_withitem(fi: FuncInfo, name: str, at: ast.AST | None):
    """The with-item binding `name` that encloses node `at` (innermost), else the only one."""
    items = []
    for x in walk_no_nested(fi.node):
        if isinstance(x, (ast.With, ast.AsyncWith)):
            for it in x.items:
                if isinstance(it.optional_vars, ast.Name) and it.optional_vars.id == name:
                    items.append((x, it))
    if at is not None:
        best = None
        for w, it in items:
            if any(y is at for y in ast.walk(w)):
                if best is None or any(y is w for y in ast.walk(best[0])):
                    best = (w, it)
        if best is not None:
            return best[1]
    if len(items) == 1:
        return items[0][1]
    return None


def path_leaf(prog: Program, fi: FuncInfo, expr: ast.AST, depth: int = 6, at: ast.AST | None = None) -> str | None:
    """Last path component an expression denotes, as far as it is statically known:
    ``self.cache_directory / PATCH_INFO_FILE`` -> "patch_ids.bin";  properties, local
    single definitions and ``with_suffix`` are followed.  Unknown -> None."""
    if depth <= 0 or expr is None:
        return None
    if isinstance(expr, ast.BinOp) and isinstance(expr.op, ast.Div):
        s = const_str(prog, fi, expr.right)
        if s is not None:
            return s.split("/")[-1]
        return path_leaf(prog, fi, expr.right, depth - 1)
    if isinstance(expr, ast.BinOp) and isinstance(expr.op, ast.Add):
        # a file name put together from constant pieces: PATCH_INFO_FILE + ".tmp"
        a, b = (const_str(prog, fi, x) if not isinstance(x, ast.BinOp) else path_leaf(prog, fi, x, depth - 1) for x in (expr.left, expr.right))
        return (a + b).split("/")[-1] if a is not None and b is not None else None
    if isinstance(expr, ast.Call):
        f = expr.func
        if isinstance(f, ast.Attribute) and f.attr == "with_suffix" and expr.args:
            s = const_str(prog, fi, expr.args[0])
            return f"*{s}" if s else None
        if isinstance(f, ast.Attribute) and f.attr in ("open",):
            return path_leaf(prog, fi, f.value, depth - 1)
        if (dotted(f) or "").split(".")[-1] in ("Path", "str") and expr.args:
            return path_leaf(prog, fi, expr.args[0], depth - 1)
        tg = prog.resolve_call(fi, expr)
        for t in tg.funcs():
            rets = [r.value for r in walk_no_nested(t.node) if isinstance(r, ast.Return) and r.value is not None]
            if len(rets) == 1:
                # the helper's parameters that the call binds to constants (or leaves to constant defaults) are read as
                # those constants: _info_path(directory, ".tmp") with `return directory / (NAME + suffix)`
                import copy

                bind = {}
                a_ = t.node.args
                pos = [q.arg for q in [*a_.posonlyargs, *a_.args]]
                if t.cls is not None and not t.is_staticmethod and pos:
                    pos = pos[1:]
                for q_, d_ in zip([*a_.posonlyargs, *a_.args][len([*a_.posonlyargs, *a_.args]) - len(a_.defaults):], a_.defaults):
                    if isinstance(d_, ast.Constant):
                        bind[q_.arg] = d_
                for q_, d_ in zip(a_.kwonlyargs, a_.kw_defaults):
                    if isinstance(d_, ast.Constant):
                        bind[q_.arg] = d_
                for i_, arg in enumerate(expr.args):
                    if i_ < len(pos) and not isinstance(arg, ast.Starred):
                        cs = const_str(prog, fi, arg)
                        if cs is not None:
                            bind[pos[i_]] = ast.Constant(value=cs)
                        else:
                            bind.pop(pos[i_], None)
                for k_ in expr.keywords:
                    if k_.arg:
                        cs = const_str(prog, fi, k_.value)
                        if cs is not None:
                            bind[k_.arg] = ast.Constant(value=cs)
                        else:
                            bind.pop(k_.arg, None)

                class _B(ast.NodeTransformer):
                    def visit_Name(self, n_):
                        return copy.deepcopy(bind[n_.id]) if isinstance(n_.ctx, ast.Load) and n_.id in bind else n_

                return path_leaf(prog, t, _B().visit(copy.deepcopy(rets[0])) if bind else rets[0], depth - 1)
        return None
    if isinstance(expr, ast.Name):
        vals = [v for v in all_def_values(fi.node, expr.id)]
        if len(vals) == 1 and vals[0] is not None:
            return path_leaf(prog, fi, vals[0], depth - 1)
        # `with X.open() as f` -> f names X's file
        it = _enclosing_withitem(fi, expr.id, at if at is not None else expr)
        if it is not None:
            return path_leaf(prog, fi, it.context_expr, depth - 1)
        s = const_str(prog, fi, expr)
        return s
    if isinstance(expr, ast.Attribute):
        env = prog.func_env(fi)
        bt = env.type_of(expr.value)
        for x in bt:
            if x[0] == "cls":
                m = prog.find_method(x[1], expr.attr)
                if m is not None and m.is_property:
                    rets = [r.value for r in walk_no_nested(m.node) if isinstance(r, ast.Return) and r.value is not None]
                    if len(rets) == 1:
                        return path_leaf(prog, m, rets[0], depth - 1)
        s = const_str(prog, fi, expr)
        return s
    return None


# ----------------------------------------------------------------------------- call classification


@dataclass
class Effect:
    kind: str  # fs | ipc | mpi | rng
    op: str
    call: ast.Call
    subject: ast.AST | None = None  # file / queue / process / communicator expression
    mode: str | None = None
    leaf: str | None = None
    source: ast.AST | None = None  # rename/replace: the file that is moved onto `subject`

    def __repr__(self) -> str:
        return f"<{self.kind}.{self.op} {unparse(self.subject)[:40]} {self.mode or ''} {self.leaf or ''}>"


MPI_OPS = {
    "send", "recv", "bcast", "Bcast", "Barrier", "gather", "Split", "Free", "Get_rank", "Get_size",
    "scatter", "Send", "Recv", "isend", "irecv", "allgather", "reduce", "allreduce", "Scatter", "Gather",
}
MPI_COLLECTIVES = {"bcast", "Bcast", "Barrier", "gather", "Split", "Free", "scatter", "allgather", "reduce", "allreduce", "Scatter", "Gather"}
POOL_BLOCKING = {"map", "starmap", "apply"}
POOL_LAZY = {"imap", "imap_unordered", "map_async", "apply_async", "starmap_async"}


def _kw(call: ast.Call, name: str) -> ast.AST | None:
    for k in call.keywords:
        if k.arg == name:
            return k.value
    return None


def _mode_of(call: ast.Call, pos: int) -> str:
    m = _kw(call, "mode")
    if m is None and len(call.args) > pos:
        m = call.args[pos]
    if isinstance(m, ast.Constant) and isinstance(m.value, str):
        return m.value
    return "r" if m is None else "?"


def is_mpi_receiver(prog: Program, fi: FuncInfo, recv: ast.AST) -> bool:
    env = prog.func_env(fi)
    d = dotted(recv) or ""
    if d.split(".")[-1] in ("COMM", "COMM_WORLD"):
        return True
    for x in env.type_of(recv):
        if x[0] == "ext" and "mpi4py" in x[1]:
            return True
        if x[0] == "global" and x[2] == "COMM":
            return True
        if x[0] == "cls" and x[1].name == "MockComm":
            return True
    return False


def classify_call(prog: Program, fi: FuncInfo, call: ast.Call) -> list[Effect]:
    """Abstract effects performed directly by this call (not by callees)."""
    out: list[Effect] = []
    f = call.func
    tg = prog.resolve_call(fi, call)
    ext = tg.ext_names()
    attr = f.attr if isinstance(f, ast.Attribute) else None
    recv = f.value if isinstance(f, ast.Attribute) else None
    env = prog.func_env(fi)

    def ext_is(*names: str) -> bool:
        return any(e in names or any(e.endswith("." + n.split(".", 1)[-1]) and e.split(".")[0] == n.split(".")[0] for n in names) for e in ext)

    # ---- file system
    if any(e == "builtins.open" for e in ext):
        mode = _mode_of(call, 1)
        out.append(Effect("fs", "open", call, call.args[0] if call.args else None, mode))
    elif any(e == "astropy.io.fits.open" for e in ext):
        out.append(Effect("fs", "open", call, call.args[0] if call.args else None, "r"))
    elif attr == "open" and recv is not None and not tg.funcs():
        mode = _mode_of(call, 0)
        out.append(Effect("fs", "open", call, recv, mode))
    if any(e in ("shutil.rmtree",) for e in ext):
        out.append(Effect("fs", "rmtree", call, call.args[0] if call.args else None))
    if attr in ("mkdir", "unlink", "rmdir", "touch", "write_text", "write_bytes") and not tg.funcs():
        rt = env.type_of(recv)
        if any(x[0] == "ext" and x[1].startswith("pathlib") for x in rt) or not rt:
            out.append(Effect("fs", attr, call, recv))
    if attr in ("rename", "replace") and not tg.funcs() and call.args:
        rt = env.type_of(recv)
        if any(x[0] == "ext" and x[1].startswith("pathlib") for x in rt) or not rt:
            out.append(Effect("fs", "replace", call, call.args[0], source=recv))
    if any(e in ("os.replace", "os.rename", "shutil.move") for e in ext) and len(call.args) > 1:
        out.append(Effect("fs", "replace", call, call.args[1], source=call.args[0]))
    if any(e in ("os.remove", "os.unlink") for e in ext):
        out.append(Effect("fs", "unlink", call, call.args[0] if call.args else None))
    if attr in ("exists", "is_file", "is_dir") and not tg.funcs():
        out.append(Effect("fs", "exists", call, recv))
    if attr == "tofile" and not tg.funcs():
        out.append(Effect("fs", "write", call, call.args[0] if call.args else None))
    if any(e in ("numpy.fromfile", "numpy.loadtxt", "numpy.load") for e in ext):
        out.append(Effect("fs", "read", call, call.args[0] if call.args else None))
    if any(e in ("pickle.dump",) for e in ext):
        out.append(Effect("fs", "write", call, call.args[1] if len(call.args) > 1 else None))
    if any(e in ("pickle.load",) for e in ext):
        out.append(Effect("fs", "read", call, call.args[0] if call.args else None))
    if any(e in ("h5py.File",) for e in ext):
        out.append(Effect("fs", "open", call, call.args[0] if call.args else None, _mode_of(call, 1)))
    if any(e.startswith("yaml.") and "load" in e for e in ext):
        out.append(Effect("fs", "read", call, call.args[0] if call.args else None))
    if any(e.startswith("yaml.") and "dump" in e for e in ext):
        out.append(Effect("fs", "write", call, call.args[1] if len(call.args) > 1 else None))
    if attr in ("write", "writelines") and not tg.funcs() and recv is not None:
        out.append(Effect("fs", "write", call, recv))
    if attr in ("read", "readline", "readlines") and not tg.funcs() and recv is not None:
        out.append(Effect("fs", "read", call, recv))
    if attr == "close" and not tg.funcs() and recv is not None:
        out.append(Effect("fs", "close", call, recv))

    # ---- IPC
    if any(e.endswith("multiprocessing.Process") or e == "multiprocessing.Process" for e in ext):
        out.append(Effect("ipc", "process.new", call, _kw(call, "target")))
    if attr in ("start", "join", "terminate", "kill") and recv is not None and not tg.funcs():
        rt = env.type_of(recv)
        if any(x[0] == "ext" and "multiprocessing.Process" in x[1] for x in rt):
            out.append(Effect("ipc", "process." + attr, call, recv))
    if attr in ("put", "put_nowait") and recv is not None and not tg.funcs():
        out.append(Effect("ipc", "queue.put", call, recv))
    if attr in ("get", "get_nowait") and recv is not None and not tg.funcs():
        rt = env.type_of(recv)
        if not any(x[0] == "dict" for x in rt) and "queue" in (dotted(recv) or "").lower():
            out.append(Effect("ipc", "queue.get", call, recv))
    if attr in POOL_BLOCKING | POOL_LAZY and recv is not None and not tg.funcs():
        rt = env.type_of(recv)
        if any(x[0] == "ext" and "Pool" in x[1] for x in rt) or (dotted(recv) or "") == "pool":
            out.append(Effect("ipc", "pool." + attr, call, recv))

    # ---- MPI
    if attr in MPI_OPS and recv is not None and is_mpi_receiver(prog, fi, recv):
        out.append(Effect("mpi", attr, call, recv))

    # ---- RNG
    d = dotted(f) or ""
    for e in ext:
        if (e.startswith("numpy.random.") or e.startswith("random.")) and "()" not in e:
            # methods of a generator *object* (numpy.random.Generator.integers, RandomState.uniform, random.Random.random)
            # draw from that object's own stream, not from the module-level state
            parts = e.split(".")
            if len(parts) >= 2 and parts[-2] in ("Generator", "RandomState", "Random", "SeedSequence", "BitGenerator") and recv is not None:
                continue
            out.append(Effect("rng", "global:" + e, call))
    rsrc = recv
    if isinstance(recv, ast.Name):  # rng = self.rng ; rng.uniform(...): a local alias bound exactly once
        defs = [st.value for st in ast.walk(fi.node) if isinstance(st, ast.Assign) and any(isinstance(t, ast.Name) and t.id == recv.id for t in st.targets)]
        stores = [x for x in ast.walk(fi.node) if isinstance(x, ast.Name) and x.id == recv.id and isinstance(x.ctx, ast.Store)]
        if len(defs) == 1 and len(stores) == 1 and recv.id not in fi.param_names():
            rsrc = defs[0]
    if rsrc is not None and (dotted(rsrc) or "").endswith(".rng") and not tg.funcs():
        out.append(Effect("rng", "seeded:" + (attr or ""), call, recv))
    return out


def node_effects(prog: Program, fi: FuncInfo, n: Node) -> list[Effect]:
    out: list[Effect] = []
    for c in n.calls():
        out.extend(classify_call(prog, fi, c))
    return out


# ----------------------------------------------------------------------------- summaries


class Summaries:
    """Transitive may-effects of functions through precisely resolved in-repo callees,
    context-manager methods of `with` items and property reads."""

    def __init__(self, prog: Program) -> None:
        self.prog = prog
        self._direct: dict[FuncInfo, list[Effect]] = {}
        self._callees: dict[FuncInfo, list[FuncInfo]] = {}
        self._may: dict[FuncInfo, list[tuple[Effect, FuncInfo]]] = {}

    def direct(self, fi: FuncInfo) -> list[Effect]:
        if fi not in self._direct:
            effs: list[Effect] = []
            for x in walk_no_nested(fi.node):
                if isinstance(x, ast.Call):
                    effs.extend(classify_call(self.prog, fi, x))
            self._direct[fi] = effs
        return self._direct[fi]

    def callees(self, fi: FuncInfo) -> list[FuncInfo]:
        if fi in self._callees:
            return self._callees[fi]
        out: list[FuncInfo] = []
        env = self.prog.func_env(fi)

        def add(t) -> None:
            if isinstance(t, FuncInfo) and t not in out:
                out.append(t)

        for x in walk_no_nested(fi.node):
            if isinstance(x, ast.Call):
                tg = self.prog.resolve_call(fi, x)
                if tg.precise:
                    for t in tg.targets:
                        if isinstance(t, FuncInfo):
                            add(t)
                            # receiver may be a subclass instance: include overrides
                            if t.cls is not None:
                                for sub in self.prog.subclasses(t.cls):
                                    if t.name in sub.methods:
                                        add(sub.methods[t.name])
                        elif isinstance(t, ClassInfo):
                            for nm in ("__init__", "__post_init__", "__new__"):
                                m = self.prog.find_method(t, nm)
                                if m is not None:
                                    add(m)
            elif isinstance(x, ast.withitem):
                for ty in env.type_of(x.context_expr):
                    if ty[0] == "cls":
                        for nm in ("__enter__", "__exit__"):
                            m = self.prog.find_method(ty[1], nm)
                            if m is not None:
                                add(m)
            elif isinstance(x, ast.Attribute) and isinstance(x.ctx, ast.Load):
                for ty in env.type_of(x.value):
                    if ty[0] == "cls":
                        m = self.prog.find_method(ty[1], x.attr)
                        if m is not None and m.is_property:
                            add(m)
        # nested functions defined here are assumed callable from here
        for f2 in fi.module.all_funcs:
            if f2.parent is fi:
                add(f2)
        self._callees[fi] = out
        return out

    def may(self, fi: FuncInfo) -> list[tuple[Effect, FuncInfo]]:
        """All effects reachable from fi (with the function performing them)."""
        if fi in self._may:
            return self._may[fi]
        seen: set[FuncInfo] = set()
        stack = [fi]
        out: list[tuple[Effect, FuncInfo]] = []
        while stack:
            f = stack.pop()
            if f in seen:
                continue
            seen.add(f)
            out.extend((e, f) for e in self.direct(f))
            stack.extend(self.callees(f))
        self._may[fi] = out
        return out

    def reachable(self, fi: FuncInfo) -> set[FuncInfo]:
        seen: set[FuncInfo] = set()
        stack = [fi]
        while stack:
            f = stack.pop()
            if f in seen:
                continue
            seen.add(f)
            stack.extend(self.callees(f))
        return seen

    def call_may(self, fi: FuncInfo, call: ast.Call) -> list[tuple[Effect, FuncInfo]]:
        """Effects of one call: direct + everything reachable through its callees."""
        out = [(e, fi) for e in classify_call(self.prog, fi, call)]
        tg = self.prog.resolve_call(fi, call)
        if tg.precise:
            for t in tg.targets:
                if isinstance(t, FuncInfo):
                    out.extend(self.may(t))
                    if t.cls is not None:
                        for sub in self.prog.subclasses(t.cls):
                            if t.name in sub.methods:
                                out.extend(self.may(sub.methods[t.name]))
                elif isinstance(t, ClassInfo):
                    for nm in ("__init__", "__post_init__"):
                        m = self.prog.find_method(t, nm)
                        if m is not None:
                            out.extend(self.may(m))
        return out

    def node_may(self, fi: FuncInfo, n: Node) -> list[tuple[Effect, FuncInfo]]:
        out: list[tuple[Effect, FuncInfo]] = []
        for c in n.calls():
            out.extend(self.call_may(fi, c))
        if n.kind in ("with_enter", "with_exit"):
            env = self.prog.func_env(fi)
            for ty in env.type_of(n.ast.context_expr):
                if ty[0] == "cls":
                    m = self.prog.find_method(ty[1], "__enter__" if n.kind == "with_enter" else "__exit__")
                    if m is not None:
                        out.extend(self.may(m))
        if n.expr is not None:
            env = self.prog.func_env(fi)
            for x in walk_no_nested(n.expr):
                if isinstance(x, ast.Attribute) and isinstance(x.ctx, ast.Load):
                    for ty in env.type_of(x.value):
                        if ty[0] == "cls":
                            m = self.prog.find_method(ty[1], x.attr)
                            if m is not None and m.is_property:
                                out.extend(self.may(m))
        return out


_SUMM: dict = {}


def summaries(prog: Program) -> Summaries:
    hit = _SUMM.get(id(prog))
    if hit is not None and hit[0] is prog:
        return hit[1]
    s = Summaries(prog)
    _SUMM[id(prog)] = (prog, s)
    return s


# ----------------------------------------------------------------------------- tiny partial evaluator


class Unknown(Exception):
    pass


def eval_test(expr: ast.AST, env: dict, defs=None, _depth: int = 0):
    """Evaluate a test expression under a partial environment name -> value
    (values: None or the string "SOME" for a non-None truthy object).  `defs(name)` may
    return the single defining expression of a local name.  Raises Unknown."""
    SOME = "SOME"

    def ev(e):
        if isinstance(e, ast.Constant):
            return e.value
        if isinstance(e, ast.Name):
            if e.id in env:
                return env[e.id]
            if defs is not None and _depth < 4:
                d = defs(e.id)
                if d is not None:
                    return eval_test(d, env, defs, _depth + 1) if _is_boolish(d) else ev_sub(d)
            raise Unknown(e.id)
        if isinstance(e, ast.Subscript) and isinstance(e.value, ast.Name) and e.value.id in env:
            v = env[e.value.id]
            if isinstance(v, tuple):
                idx = ev(e.slice)
                return v[idx]
            raise Unknown(unparse(e))
        if isinstance(e, ast.UnaryOp) and isinstance(e.op, ast.Not):
            return not truth(ev(e.operand))
        if isinstance(e, ast.BoolOp):
            vals = []
            unknown = False
            for v in e.values:
                try:
                    vals.append(truth(ev(v)))
                except Unknown:
                    unknown = True
                    vals.append(None)
            if isinstance(e.op, ast.And):
                if any(v is False for v in vals):
                    return False
                if unknown:
                    raise Unknown("and")
                return True
            if any(v is True for v in vals):
                return True
            if unknown:
                raise Unknown("or")
            return False
        if isinstance(e, ast.Compare) and len(e.ops) == 1:
            a, b = ev(e.left), ev(e.comparators[0])
            op = e.ops[0]
            if isinstance(op, (ast.Is, ast.Eq)):
                if a == SOME and b == SOME:
                    raise Unknown("some==some")
                return a is b if isinstance(op, ast.Is) else a == b
            if isinstance(op, (ast.IsNot, ast.NotEq)):
                if a == SOME and b == SOME:
                    raise Unknown("some!=some")
                return a is not b if isinstance(op, ast.IsNot) else a != b
            raise Unknown("cmp")
        if isinstance(e, ast.Call) and isinstance(e.func, ast.Name) and e.func.id in ("any", "all") and len(e.args) == 1:
            v = ev(e.args[0])
            if isinstance(v, tuple):
                ts = [truth(x) for x in v]
                return any(ts) if e.func.id == "any" else all(ts)
            raise Unknown("any/all")
        if isinstance(e, ast.Call):
            fn = (e.func.attr if isinstance(e.func, ast.Attribute) else (dotted(e.func) or "")) + "()"
            if fn in env:
                return env[fn]
            raise Unknown(fn)
        raise Unknown(type(e).__name__)

    def truth(v):
        if v == SOME:
            return True
        return bool(v)

    def ev_sub(d):
        return ev(d)

    return truth(ev(expr))


def _is_boolish(e: ast.AST) -> bool:
    return isinstance(e, (ast.Compare, ast.BoolOp)) or (isinstance(e, ast.UnaryOp) and isinstance(e.op, ast.Not))


# ----------------------------------------------------------------------------- tiny concrete evaluator


class Vec(tuple):
    """a small concrete vector for folding element-wise array expressions (test vectors such as (1, 3) vs (2, 2)):
    arithmetic and comparisons act element-wise, the truth value of a vector with more than one element is undefined"""

    def _zip(self, o):
        if isinstance(o, Vec):
            if len(o) != len(self):
                raise Unknown("shape mismatch")
            return zip(self, o)
        return ((a, o) for a in self)

    def __add__(self, o): return Vec(a + b for a, b in self._zip(o))
    def __radd__(self, o): return Vec(b + a for a, b in self._zip(o))
    def __sub__(self, o): return Vec(a - b for a, b in self._zip(o))
    def __rsub__(self, o): return Vec(b - a for a, b in self._zip(o))
    def __mul__(self, o): return Vec(a * b for a, b in self._zip(o))
    def __rmul__(self, o): return Vec(b * a for a, b in self._zip(o))
    def __truediv__(self, o): return Vec(a / b for a, b in self._zip(o))
    def __neg__(self): return Vec(-a for a in self)
    def __lt__(self, o): return Vec(a < b for a, b in self._zip(o))
    def __le__(self, o): return Vec(a <= b for a, b in self._zip(o))
    def __gt__(self, o): return Vec(a > b for a, b in self._zip(o))
    def __ge__(self, o): return Vec(a >= b for a, b in self._zip(o))
    def __eq__(self, o): return Vec(a == b for a, b in self._zip(o))  # noqa: E704
    def __ne__(self, o): return Vec(a != b for a, b in self._zip(o))
    def __invert__(self): return Vec(not a for a in self)
    __hash__ = tuple.__hash__

    def __bool__(self):
        if len(self) == 1:
            return bool(self[0])
        raise Unknown("truth value of a vector")


NUMPY_SCALAR_TRANSPARENT = ("asarray", "atleast_1d", "array", "float64", "squeeze", "any", "all", "asanyarray", "abs")
CONST_METHODS = ("index", "count", "get", "keys", "values", "items", "startswith", "endswith", "lower", "upper", "strip", "split", "bit_length", "copy")
_NOVALUE = object()


def module_const_env(prog: Program, mod) -> dict:
    """python values of the module-level constants of a module that are literals or are computed from other such
    constants by slicing / len / + (e.g. OPTIONAL = ATTR_ORDER[2:]), keyed by name — an environment for ceval"""
    env: dict = {}
    for _ in range(3):
        for st in mod.tree.body:
            tgt = val = None
            if isinstance(st, ast.Assign) and len(st.targets) == 1 and isinstance(st.targets[0], ast.Name):
                tgt, val = st.targets[0].id, st.value
            elif isinstance(st, ast.AnnAssign) and isinstance(st.target, ast.Name) and st.value is not None:
                tgt, val = st.target.id, st.value
            if tgt is None or tgt in env:
                continue
            try:
                v = ceval(val, env)
            except Exception:  # noqa: BLE001
                continue
            if isinstance(v, (int, float, str, bytes, tuple, bool, dict, list, frozenset)) or v is None:
                env[tgt] = v
    # constants imported from other modules of the package
    for local, imp in getattr(mod, "imports", {}).items():
        if imp and imp[0] == "sym" and local not in env:
            try:
                other = prog.module(imp[1])
            except Exception:  # noqa: BLE001
                continue
            if other is mod:
                continue
            oenv = _MODENV.get((prog.uid, other.name))
            if oenv is None:
                _MODENV[(prog.uid, other.name)] = {}
                oenv = module_const_env(prog, other)
                _MODENV[(prog.uid, other.name)] = oenv
            if imp[2] in oenv:
                env[local] = oenv[imp[2]]
    return env


_MODENV: dict = {}


def ceval(expr: ast.AST, env: dict):
    """Evaluate an expression over a concrete environment keyed by *source text* of
    sub-expressions (``env["len(binning)"] = 5``, ``env["binning.closed"] = "right"``).
    StrEnum members ``X.right`` evaluate to "right".  Raises Unknown on anything else."""
    import operator as op

    txt = unparse(expr)
    if txt in env:
        return env[txt]
    if isinstance(expr, ast.Constant):
        return expr.value
    if isinstance(expr, ast.Name):
        raise Unknown(expr.id)
    if isinstance(expr, ast.Attribute) and expr.attr in ("ndim", "size", "shape"):
        try:
            base = ceval(expr.value, env)
        except Unknown:
            base = None
        if isinstance(base, Vec):
            return {"ndim": 1, "size": len(base), "shape": (len(base),)}[expr.attr]
    if isinstance(expr, ast.Attribute):
        d = dotted(expr) or ""
        head = d.split(".")[0]
        if head[:1].isupper() and "." in d and d.count(".") == 1:  # Enum member, e.g. Closed.right
            return expr.attr
        raise Unknown(txt)
    if isinstance(expr, (ast.Tuple, ast.List)):
        vals = []
        for x in expr.elts:
            if isinstance(x, ast.Starred):
                vals.extend(list(ceval(x.value, env)))
            else:
                vals.append(ceval(x, env))
        return tuple(vals) if isinstance(expr, ast.Tuple) else list(vals)
    if isinstance(expr, ast.Dict) and all(k is not None for k in expr.keys):
        return {ceval(k, env): ceval(v, env) for k, v in zip(expr.keys, expr.values)}
    if isinstance(expr, (ast.ListComp, ast.SetComp, ast.GeneratorExp, ast.DictComp)) and not any(g.is_async for g in expr.generators):
        # comprehension over a foldable iterable (e.g. a name table built from a module-level tuple)
        budget = [20000]

        def bind(t, v, e2):
            if isinstance(t, ast.Name):
                e2[t.id] = v
            elif isinstance(t, (ast.Tuple, ast.List)) and not any(isinstance(x, ast.Starred) for x in t.elts):
                v = tuple(v)
                if len(v) != len(t.elts):
                    raise Unknown("unpacking in comprehension")
                for tt, vv in zip(t.elts, v):
                    bind(tt, vv, e2)
            else:
                raise Unknown("comprehension target")

        def rec(gens, e_):
            if not gens:
                yield e_
                return
            g = gens[0]
            it = ceval(g.iter, e_)
            if isinstance(it, dict):
                it = list(it)
            if not isinstance(it, (tuple, list, range, str, bytes, frozenset, set)):
                raise Unknown("comprehension iterable")
            for item in it:
                budget[0] -= 1
                if budget[0] < 0:
                    raise Unknown("comprehension too large")
                e2 = dict(e_)
                bind(g.target, item, e2)
                if all(ceval(c, e2) for c in g.ifs):
                    yield from rec(gens[1:], e2)

        if isinstance(expr, ast.DictComp):
            return {ceval(expr.key, e_): ceval(expr.value, e_) for e_ in rec(expr.generators, env)}
        vals_ = [ceval(expr.elt, e_) for e_ in rec(expr.generators, env)]
        return set(vals_) if isinstance(expr, ast.SetComp) else vals_
    if isinstance(expr, ast.JoinedStr):
        parts = []
        for v in expr.values:
            if isinstance(v, ast.Constant):
                parts.append(str(v.value))
            elif isinstance(v, ast.FormattedValue) and v.format_spec is None and v.conversion == -1:
                parts.append(str(ceval(v.value, env)))
            else:
                raise Unknown(txt)
        return "".join(parts)
    if isinstance(expr, ast.Call) and isinstance(expr.func, ast.Name) and expr.func.id == "getattr" and len(expr.args) in (2, 3) and not expr.keywords:
        name = ceval(expr.args[1], env)
        key = f"{unparse(expr.args[0])}.{name}"
        if key in env:
            return env[key]
        if len(expr.args) == 3:
            return ceval(expr.args[2], env)
        raise Unknown(key)
    if isinstance(expr, ast.Call) and isinstance(expr.func, ast.Attribute) and expr.func.attr in ("any", "all", "min", "max", "sum") and not expr.args and not expr.keywords:
        try:
            base = ceval(expr.func.value, env)
        except Unknown:
            base = None
        if isinstance(base, Vec):
            import builtins

            return getattr(builtins, expr.func.attr)(bool(x) if expr.func.attr in ("any", "all") else x for x in base)
    if isinstance(expr, ast.Call) and isinstance(expr.func, ast.Attribute) and expr.func.attr in CONST_METHODS and not expr.keywords:
        try:
            base = ceval(expr.func.value, env)
        except Unknown:
            base = _NOVALUE
        if isinstance(base, (tuple, list, str, dict, bytes, int)) and not isinstance(base, bool):
            return getattr(base, expr.func.attr)(*[ceval(a, env) for a in expr.args])
    if isinstance(expr, ast.UnaryOp):
        v = ceval(expr.operand, env)
        if isinstance(expr.op, ast.Not):
            return not v
        if isinstance(expr.op, ast.USub):
            return -v
        if isinstance(expr.op, ast.Invert):
            return (not v) if isinstance(v, bool) else ~v
        raise Unknown("unary")
    if isinstance(expr, ast.BoolOp):
        for v in expr.values:  # short-circuit like Python
            r = ceval(v, env)
            if isinstance(expr.op, ast.And) and not r:
                return False
            if isinstance(expr.op, ast.Or) and r:
                return True
        return isinstance(expr.op, ast.And)
    if isinstance(expr, ast.BinOp):
        a, b = ceval(expr.left, env), ceval(expr.right, env)
        table = {ast.Add: op.add, ast.Sub: op.sub, ast.Mult: op.mul, ast.BitAnd: op.and_, ast.BitOr: op.or_, ast.FloorDiv: op.floordiv, ast.Mod: op.mod, ast.LShift: op.lshift, ast.RShift: op.rshift, ast.BitXor: op.xor}
        for k, f in table.items():
            if isinstance(expr.op, k):
                return f(a, b)
        if isinstance(expr.op, ast.Pow) and isinstance(a, (int, float)) and isinstance(b, int) and not isinstance(a, bool) and 0 <= b <= 64 and abs(a) <= 1024:
            return a**b  # small integer powers (2 ** ORDER)
        if isinstance(expr.op, ast.Div) and isinstance(a, (int, float)) and isinstance(b, (int, float)) and b != 0:
            return a / b
        raise Unknown("binop")
    if isinstance(expr, ast.Compare):
        left = ceval(expr.left, env)
        for o, c in zip(expr.ops, expr.comparators):
            right = ceval(c, env)
            table = {ast.Lt: op.lt, ast.LtE: op.le, ast.Gt: op.gt, ast.GtE: op.ge, ast.Eq: op.eq, ast.NotEq: op.ne, ast.Is: op.is_, ast.IsNot: op.is_not}
            for k, f in table.items():
                if isinstance(o, k):
                    r_ = f(left, right)
                    if isinstance(r_, Vec):
                        if len(expr.ops) == 1:
                            return r_
                        raise Unknown("chained comparison of vectors")
                    if not r_:
                        return False
                    break
            else:
                raise Unknown("cmpop")
            left = right
        return True
    if isinstance(expr, ast.IfExp):
        return ceval(expr.body, env) if ceval(expr.test, env) else ceval(expr.orelse, env)
    if isinstance(expr, ast.Call) and (dotted(expr.func) or "").split(".")[-1] in ("array_equal", "array_equiv") and len(expr.args) >= 2:
        return ceval(expr.args[0], env) == ceval(expr.args[1], env)
    if isinstance(expr, ast.Call) and (dotted(expr.func) or "").split(".")[-1] in ("allclose", "isclose") and len(expr.args) >= 2:
        a, b = ceval(expr.args[0], env), ceval(expr.args[1], env)

        def close(x, y):
            if isinstance(x, tuple) and isinstance(y, tuple) and len(x) == len(y):
                return all(close(p, q) for p, q in zip(x, y))
            if isinstance(x, (int, float)) and isinstance(y, (int, float)):
                return abs(x - y) <= 1e-8 + 1e-5 * abs(y)
            return x == y

        return close(a, b)
    if isinstance(expr, ast.Subscript):
        base = ceval(expr.value, env)
        if isinstance(base, (list, tuple, str, bytes)) and isinstance(expr.slice, ast.Slice):
            sl = expr.slice
            return base[slice(*(None if b is None else ceval(b, env) for b in (sl.lower, sl.upper, sl.step)))]
        if isinstance(base, (list, tuple, str, bytes, dict)) and not isinstance(expr.slice, ast.Slice):
            return base[ceval(expr.slice, env)]
        raise Unknown(txt)
    if isinstance(expr, ast.Call) and isinstance(expr.func, ast.Attribute) and expr.func.attr == "from_bytes" and (dotted(expr.func.value) or "") == "int" and expr.args:
        v = ceval(expr.args[0], env)
        bo = next((ceval(k.value, env) for k in expr.keywords if k.arg == "byteorder"), ceval(expr.args[1], env) if len(expr.args) > 1 else "big")
        if isinstance(v, (bytes, bytearray)):
            return int.from_bytes(v, byteorder=bo)
        raise Unknown(txt)
    if isinstance(expr, ast.Call) and isinstance(expr.func, ast.Attribute) and expr.func.attr == "to_bytes" and expr.args:
        v = ceval(expr.func.value, env)
        n = ceval(expr.args[0], env)
        bo = next((ceval(k.value, env) for k in expr.keywords if k.arg == "byteorder"), ceval(expr.args[1], env) if len(expr.args) > 1 else "big")
        if isinstance(v, (bool, int)):
            return int(v).to_bytes(n, byteorder=bo)
        raise Unknown(txt)
    if isinstance(expr, ast.Call) and isinstance(expr.func, ast.Name) and expr.func.id in ("len", "list", "range", "set", "sorted", "tuple", "min", "max", "sum", "all", "any", "abs", "zip", "dict", "reversed") and not expr.keywords:
        import builtins

        r = getattr(builtins, expr.func.id)(*[ceval(a, env) for a in expr.args])
        return list(r) if expr.func.id in ("zip", "reversed") else r
    if isinstance(expr, ast.Call) and isinstance(expr.func, ast.Name) and expr.func.id == "enumerate" and len(expr.args) in (1, 2):
        start = 0
        if len(expr.args) == 2:
            start = ceval(expr.args[1], env)
        for k in expr.keywords:
            if k.arg == "start":
                start = ceval(k.value, env)
        return list(enumerate(ceval(expr.args[0], env), start))
    if isinstance(expr, ast.Call) and (dotted(expr.func) or "").split(".")[0] in ("np", "numpy") and (dotted(expr.func) or "").split(".")[-1] in NUMPY_SCALAR_TRANSPARENT and len(expr.args) >= 1:
        # on a scalar these numpy functions return (the truth value of) their argument
        v = ceval(expr.args[0], env)
        nm = (dotted(expr.func) or "").split(".")[-1]
        if isinstance(v, Vec):
            if nm == "any":
                return any(bool(x) for x in v)
            if nm == "all":
                return all(bool(x) for x in v)
            if nm == "abs":
                return Vec(abs(x) for x in v)
            return v
        if isinstance(v, (bool, int, float)):
            return bool(v) if nm in ("any", "all") else v
        raise Unknown(txt)
    if isinstance(expr, ast.Call) and (dotted(expr.func) or "").split(".")[0] in ("np", "numpy") and (dotted(expr.func) or "").split(".")[-1] == "diff" and len(expr.args) == 1 and not expr.keywords:
        v = ceval(expr.args[0], env)
        if isinstance(v, Vec):
            return Vec(b - a for a, b in zip(v, v[1:]))
        raise Unknown(txt)
    if isinstance(expr, ast.Call) and isinstance(expr.func, ast.Name) and expr.func.id in ("bool", "int", "str") and len(expr.args) == 1:
        return {"bool": bool, "int": int, "str": str}[expr.func.id](ceval(expr.args[0], env))
    raise Unknown(txt)
