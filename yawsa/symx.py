"""Path-wise symbolic forward substitution over a function body ("symbolic store").

`explore(prog, fi, env=…, inline=…)` enumerates the (loop-unrolled-once) paths of a function
and, per path, keeps a store  local name -> expression *written in terms of the function's
parameters, globals and calls only* (every read of a bound local is replaced by its value,
so a bare Name in a substituted expression always denotes a parameter's entry value or a
global).  Branches whose test is decided by the rule's environment or by an earlier test on
the same path are pruned.  Calls to helpers of the package can be inlined (the callee's
paths are explored with the arguments bound and its return value is substituted at the call
site), so a rule phrased over the substituted expressions and the event sequence of a path
is invariant under: renaming of locals, splitting an expression into named steps, a
conditional expression vs. an if statement, if/else vs. early return, and extraction /
inlining of helper functions.

Nothing is executed: the store holds syntax trees, never values."""

from __future__ import annotations

import ast
import copy
import sys
from dataclasses import dataclass, field

from .effects import Unknown, ceval, eval_test
from .model import FuncInfo, Program, calls_in_order, dotted, unparse

sys.setrecursionlimit(max(sys.getrecursionlimit(), 20000))

ELEM = "ELEM"  # ELEM(iterable): one element of an iterable (loop target)
LOOP = "LOOP"  # LOOP(value after one iteration): loop-carried variable after the loop
ENTER = "ENTER"  # ENTER(ctx): value bound by `with ctx as name`
EXC = "EXC"  # EXC(handler type): value bound by `except T as name`
SETITEM = "SETITEM"  # SETITEM(container, key, value): a local container after `container[key] = value`
BIG = "BIG"  # opaque stand-in for an expression that grew too large


class TooManyPaths(Exception):
    pass


@dataclass
class Event:
    kind: str  # call | store | yield | with_enter | with_exit | del | assert
    expr: ast.AST | None  # substituted expression (the call / the store target / the yielded value)
    value: ast.AST | None  # substituted stored value (store), None otherwise
    node: ast.AST  # original syntax node (for reports)
    fi: FuncInfo  # function the node belongs to
    depth: int = 0  # inlining depth
    loops: tuple = ()  # ids of enclosing loop statements
    inlined: bool = False  # a call whose callee was explored in place
    handler: bool = False  # inside an except handler
    store: dict | None = None  # snapshot of the store (kind == "def": the closure environment of a nested function)

    @property
    def callee(self) -> str:
        if isinstance(self.expr, ast.Call):
            return (dotted(self.expr.func) or unparse(self.expr.func)).split(".")[-1]
        return ""

    def __repr__(self) -> str:
        v = f" = {unparse(self.value)}" if self.value is not None else ""
        return f"<{self.kind} {unparse(self.expr) if self.expr is not None else ''}{v} @{self.fi.qualname}:{getattr(self.node, 'lineno', 0)}>"


@dataclass
class SymPath:
    store: dict
    conds: list  # (substituted test, polarity, original node)
    events: list
    outcome: str  # return | raise | fall
    value: ast.AST | None = None  # substituted return value / raised expression
    node: ast.AST | None = None  # the return / raise statement

    def calls(self, name: str | None = None, *, inlined: bool | None = None) -> list[Event]:
        # (a call that was folded away, e.g. getattr(x, "a") -> x.a, is no longer a call)
        return [e for e in self.events if e.kind == "call" and isinstance(e.expr, ast.Call) and (name is None or e.callee == name) and (inlined is None or e.inlined == inlined)]

    def literals(self) -> list:
        """the atomic facts established on this path: (test, polarity) with `not`, true conjunctions and
        false disjunctions taken apart"""
        out = []

        def add(t, pol):
            if isinstance(t, ast.UnaryOp) and isinstance(t.op, ast.Not):
                add(t.operand, not pol)
            elif isinstance(t, ast.BoolOp) and isinstance(t.op, ast.And) and pol:
                for v in t.values:
                    add(v, True)
            elif isinstance(t, ast.BoolOp) and isinstance(t.op, ast.Or) and not pol:
                for v in t.values:
                    add(v, False)
            else:
                out.append((t, pol))

        for t, pol, _ in self.conds:
            add(t, pol)
        return out

    def cond_text(self) -> str:
        return " and ".join(("" if p else "not ") + "(" + unparse(t) + ")" for t, p, _ in self.conds)


class _State:
    __slots__ = ("store", "conds", "events", "repl", "loops", "known", "handler", "_outcome", "born")

    def __init__(self):
        self.store: dict = {}
        self.conds: list = []
        self.events: list = []
        self.repl: dict = {}  # id(original call node) -> temp name in store
        self.loops: tuple = ()
        self.known: dict = {}  # canonical test text -> bool (facts established on this path)
        self.handler = False
        self.born: dict = {}  # local name -> the loops that enclosed the binding of its list literal

    def fork(self) -> "_State":
        s = _State()
        s.store = dict(self.store)
        s.conds = list(self.conds)
        s.events = list(self.events)
        s.repl = dict(self.repl)
        s.loops = self.loops
        s.known = dict(self.known)
        s.handler = self.handler
        s.born = dict(self.born)
        return s


@dataclass
class _Kont:
    normal: object
    ret: object
    exc: object
    brk: object = None
    cont: object = None
    catches: bool = False


def _size(n: ast.AST) -> int:
    return sum(1 for _ in ast.walk(n))


def _comp_targets(gens) -> set:
    out = set()
    for g in gens:
        for x in ast.walk(g.target):
            if isinstance(x, ast.Name):
                out.add(x.id)
    return out


def _bound_names(stmts) -> list[str]:
    """names (and dotted attribute chains) assigned anywhere in a statement list (not descending into nested defs)"""
    out: list[str] = []

    def tgt(t):
        if isinstance(t, ast.Name):
            out.append(t.id)
        elif isinstance(t, (ast.Tuple, ast.List)):
            for e in t.elts:
                tgt(e)
        elif isinstance(t, ast.Starred):
            tgt(t.value)
        elif isinstance(t, ast.Attribute):
            d = dotted(t)
            if d:
                out.append(d)

    def rec(n):
        if isinstance(n, (ast.FunctionDef, ast.AsyncFunctionDef, ast.ClassDef, ast.Lambda)):
            return
        if isinstance(n, ast.Assign):
            for t in n.targets:
                tgt(t)
        elif isinstance(n, (ast.AugAssign, ast.AnnAssign)):
            tgt(n.target)
        elif isinstance(n, ast.For):
            tgt(n.target)
        elif isinstance(n, ast.NamedExpr):
            tgt(n.target)
        elif isinstance(n, ast.With):
            for it in n.items:
                if it.optional_vars is not None:
                    tgt(it.optional_vars)
        elif isinstance(n, ast.ExceptHandler) and n.name:
            out.append(n.name)
        for c in ast.iter_child_nodes(n):
            rec(c)

    for s in stmts:
        rec(s)
    return out


class Explorer:
    def __init__(
        self,
        prog: Program,
        *,
        env: dict | None = None,
        facts: dict | None = None,
        inline=None,
        max_paths: int = 4000,
        max_depth: int = 3,
        zero_iter: bool = False,
        exceptions: bool = False,
        fork_ifexp: bool = True,
        skip_tests=(),
        watch=None,
        oracle=None,
        call_value=None,
        fold_constants: bool = True,
        selfcls=None,
    ) -> None:
        self.prog = prog
        self.env = dict(env or {})
        self.facts = dict(facts or {})  # canonical (substituted) test text -> bool
        self.inline = inline
        self.max_paths = max_paths
        self.max_depth = max_depth
        self.zero_iter = zero_iter
        self.exceptions = exceptions
        self.fork_ifexp = fork_ifexp
        self.skip_tests = tuple(skip_tests)
        self.oracle = oracle  # callable(substituted test) -> True | False | None, consulted before everything else
        self.call_value = call_value  # callable(fi, call node, resolved funcs) -> expression standing for the call's value | None
        self.watch = watch  # predicate on syntax nodes: an "expr" event with the substituted node is emitted for each match
        self.fold_constants = fold_constants  # scalar module-level constants (TAG = 1, KEY = "edges") read as their value
        self.selfcls = selfcls  # the concrete class of `self` (a method of a base class explored for one subclass)
        self._cconst: dict = {}
        self._scalars: dict = {}
        self._count = 0
        self._comp_of: dict = {}
        self._tmp = 0
        self._stack: list[FuncInfo] = []

    # ------------------------------------------------------------------ substitution
    def subst(self, node: ast.AST, st: _State, shadow: frozenset = frozenset()) -> ast.AST:
        store, repl = st.store, st.repl

        def rb(n, shadow):
            if isinstance(n, ast.Call) and id(n) in repl:
                return copy.deepcopy(store[repl[id(n)]])
            if isinstance(n, ast.Name):
                if isinstance(n.ctx, ast.Load) and n.id in store and n.id not in shadow:
                    return copy.deepcopy(store[n.id])
                if isinstance(n.ctx, ast.Load) and n.id not in shadow and self.fold_constants and self._stack:
                    c = self._module_scalar(n.id)
                    if c is not None:
                        return c
                return n
            if isinstance(n, ast.Attribute) and isinstance(n.ctx, ast.Load):
                d = dotted(n)
                if d and d in store and d.split(".")[0] not in shadow:
                    return copy.deepcopy(store[d])
                if self.fold_constants and isinstance(n.value, ast.Name) and n.value.id in ("self", "cls") and n.value.id not in shadow and (n.value.id not in store or (isinstance(store[n.value.id], ast.Name) and store[n.value.id].id == n.value.id)) and self._stack:
                    c = self._class_const(n.attr)
                    if c is not None:
                        return copy.deepcopy(c)
            if isinstance(n, ast.NamedExpr):
                # the binding itself is done by _bind_walrus before; the expression reads as its value
                return rb(n.value, shadow)
            if isinstance(n, ast.Call) and isinstance(n.func, ast.Name) and n.func.id in ("any", "all") and len(n.args) == 1 and not n.keywords and isinstance(n.args[0], (ast.GeneratorExp, ast.ListComp)) and len(n.args[0].generators) == 1 and not n.args[0].generators[0].ifs and n.func.id not in store:
                # any(f(x) for x in it)  ->  any(f(ELEM(it))): "for some / every element", the element standing for the loop variable
                comp = n.args[0]
                g = comp.generators[0]
                if self.literal_items(rb(g.iter, shadow), self._stack[-1]) is None if self._stack else True:
                    tmp = _State()
                    tmp.store = dict(store)
                    tmp.repl = repl
                    tmp.known, tmp.conds, tmp.loops = st.known, st.conds, st.loops
                    it = rb(g.iter, shadow)
                    fi_ = self._stack[-1] if self._stack else None
                    if fi_ is not None:
                        self._bind(g.target, ast.Call(func=ast.Name(id=ELEM, ctx=ast.Load()), args=[it], keywords=[]), tmp, fi_, 0, g)
                        new = copy.copy(n)
                        new.args = [self.subst(comp.elt, tmp, shadow)]
                        return new
            if isinstance(n, (ast.ListComp, ast.SetComp, ast.GeneratorExp, ast.DictComp)):
                exp = self._expand_comprehension(n, st, shadow, rb)
                if exp is not None:
                    return exp
                inner = shadow | _comp_targets(n.generators)
                new = copy.copy(n)
                gens = []
                sh = shadow
                for g in n.generators:
                    g2 = copy.copy(g)
                    g2.iter = rb(g.iter, sh)
                    sh = sh | _comp_targets([g])
                    g2.ifs = [rb(c, sh) for c in g.ifs]
                    gens.append(g2)
                new.generators = gens
                if isinstance(n, ast.DictComp):
                    new.key = rb(n.key, inner)
                    new.value = rb(n.value, inner)
                else:
                    new.elt = rb(n.elt, inner)
                return new
            if isinstance(n, ast.Lambda):
                a = n.args
                inner = shadow | {x.arg for x in [*a.posonlyargs, *a.args, *a.kwonlyargs]} | ({a.vararg.arg} if a.vararg else set()) | ({a.kwarg.arg} if a.kwarg else set())
                new = copy.copy(n)
                new.body = rb(n.body, inner)
                return new
            if isinstance(n, ast.IfExp):
                t = rb(n.test, shadow)
                d = self.decide(t, st)
                if d is True:
                    return rb(n.body, shadow)
                if d is False:
                    return rb(n.orelse, shadow)
                new = copy.copy(n)
                new.test, new.body, new.orelse = t, rb(n.body, shadow), rb(n.orelse, shadow)
                return new
            new = copy.copy(n)
            for f in n._fields:
                v = getattr(n, f, None)
                if isinstance(v, ast.AST):
                    setattr(new, f, rb(v, shadow))
                elif isinstance(v, list):
                    setattr(new, f, [rb(x, shadow) if isinstance(x, ast.AST) else x for x in v])
            if isinstance(new, ast.Subscript) and isinstance(new.ctx, ast.Load) and isinstance(new.value, ast.Name) and new.value.id not in store and new.value.id not in shadow and self.fold_constants and self._stack:
                # a module-level dispatch table indexed by a key that is known on this path: TABLE[key] reads as its entry
                ent = self._table_entry(new.value.id, new.slice, st)
                if ent is not None:
                    return ent
            if isinstance(new, (ast.Subscript, ast.Attribute)) and isinstance(getattr(new, "ctx", None), ast.Load):
                return self._simplify(new)
            if isinstance(new, ast.JoinedStr):
                return self._simplify_fstring(new)
            if isinstance(new, ast.Compare) and len(new.ops) == 1 and isinstance(new.ops[0], (ast.Eq, ast.NotEq)):
                # str(<StrEnum value>) == Member  reads as  <value> == Member
                def enumish(x):
                    return (isinstance(x, ast.Attribute) and (dotted(x) or "").count(".") == 1 and (dotted(x) or "")[:1].isupper()) or (isinstance(x, ast.Constant) and isinstance(x.value, str))

                def unstr(x):
                    return x.args[0] if isinstance(x, ast.Call) and isinstance(x.func, ast.Name) and x.func.id == "str" and len(x.args) == 1 and not x.keywords else x

                l_, r_ = new.left, new.comparators[0]
                if enumish(r_) and unstr(l_) is not l_:
                    new.left = unstr(l_)
                elif enumish(l_) and unstr(r_) is not r_:
                    new.comparators = [unstr(r_)]
            if isinstance(new, ast.Call):
                new = self._simplify_call(new)
                if isinstance(new, (ast.GeneratorExp, ast.DictComp, ast.ListComp)) and getattr(new, "_rb_done", 0) < 2:
                    # a functional idiom that now reads as a comprehension: expand it over literals like any other
                    new._rb_done = getattr(new, "_rb_done", 0) + 1  # type: ignore[attr-defined]
                    exp = self._expand_comprehension(new, st, shadow, rb)
                    return exp if exp is not None else new
                if not isinstance(new, ast.Call):
                    return new
                if (dotted(new.func) or "").split(".")[-1] == "compress" and len(new.args) == 2 and not new.keywords and all(isinstance(a_, (ast.Tuple, ast.List)) and not any(isinstance(x, ast.Starred) for x in a_.elts) for a_ in new.args):
                    # itertools.compress(<literal items>, <literal selectors>) with selectors that are decided on this path
                    data, sel = new.args
                    picks = [self.decide(x, st) for x in sel.elts]
                    if all(v is not None for v in picks):
                        return ast.Tuple(elts=[d_ for d_, v in zip(data.elts, picks) if v], ctx=ast.Load())
            if isinstance(new, ast.Call) and isinstance(new.func, ast.Name) and new.func.id == "len" and len(new.args) == 1 and not new.keywords:
                a = new.args[0]
                if isinstance(a, (ast.List, ast.Tuple, ast.Set)) and not any(isinstance(x, ast.Starred) for x in a.elts) and not isinstance(a, ast.Set):
                    return ast.Constant(value=len(a.elts))
                if _const_dict(a):
                    return ast.Constant(value=len(a.keys))
            return new

        out = rb(node, shadow)
        if _size(out) > 1500:
            return ast.Call(func=ast.Name(id=BIG, ctx=ast.Load()), args=[ast.Constant(value=unparse(node)[:60])], keywords=[])
        return out

    def _table_entry(self, name: str, key: ast.AST, st: "_State"):
        """the value of `NAME[key]` for a module-level dictionary display NAME = {k1: v1, …} (bound once, at least two
        entries, never mutated in the module) when the key is decided on this path: it is spelled like exactly one of the
        keys, or it is a test / a tuple of tests that fold to constants, or the oracle / the known facts decide
        `key == k` for exactly one k.  None when the table or the key is not known"""
        fi = self._stack[-1]
        ck = ("table", fi.module.name, name)
        if ck not in self._scalars:
            node = None
            f_ = fi
            local = False
            while f_ is not None:
                if name in f_.param_names() or name in _bound_names(f_.node.body):
                    local = True
                    break
                f_ = getattr(f_, "parent", None)
            if not local:
                defs = [x for x in fi.module.tree.body if (isinstance(x, ast.Assign) and any(isinstance(t, ast.Name) and t.id == name for t in x.targets)) or (isinstance(x, ast.AnnAssign) and isinstance(x.target, ast.Name) and x.target.id == name and x.value is not None)]
                mutated = any((isinstance(y, ast.Subscript) and isinstance(y.ctx, (ast.Store, ast.Del)) and isinstance(y.value, ast.Name) and y.value.id == name) or (isinstance(y, ast.Call) and isinstance(y.func, ast.Attribute) and isinstance(y.func.value, ast.Name) and y.func.value.id == name and y.func.attr in ("update", "pop", "setdefault", "clear", "popitem")) for y in ast.walk(fi.module.tree))
                if len(defs) == 1 and isinstance(defs[0].value, ast.Dict) and len(defs[0].value.keys) >= 2 and all(k is not None for k in defs[0].value.keys) and not mutated:
                    node = defs[0].value
            self._scalars[ck] = node
        table = self._scalars[ck]
        if table is None:
            return None

        def const_of(e):
            if isinstance(e, ast.Constant):
                return e
            if isinstance(e, ast.Tuple):
                parts = [const_of(x) for x in e.elts]
                return ast.Tuple(elts=parts, ctx=ast.Load()) if all(q is not None for q in parts) else None
            d = self.decide(e, st) if isinstance(e, (ast.Compare, ast.BoolOp, ast.UnaryOp, ast.Call)) else None
            return ast.Constant(value=d) if d is not None else None

        ktxt = unparse(key)
        hits = [v for k, v in zip(table.keys, table.values) if unparse(k) == ktxt]
        if len(hits) != 1:
            ck_ = const_of(key)
            if ck_ is not None:
                hits = [v for k, v in zip(table.keys, table.values) if unparse(k) == unparse(ck_)]
        if len(hits) != 1:
            verdicts = [self.decide(ast.Compare(left=key, ops=[ast.Eq()], comparators=[k]), st) for k in table.keys]
            if sum(1 for v in verdicts if v is True) == 1 and all(v is not None for v in verdicts):
                hits = [v for v, d in zip(table.values, verdicts) if d is True]
        return copy.deepcopy(hits[0]) if len(hits) == 1 else None

    def _never_none(self, call: ast.Call) -> bool:
        if not self._stack:
            return False
        try:
            tg = self.prog.resolve_call(self._stack[-1], call)
        except Exception:  # noqa: BLE001
            return False
        fs = tg.funcs() if getattr(tg, "precise", True) else []
        if len(fs) != 1 or tg.classes():
            return False
        f = fs[0]
        if f.is_abstract or any(isinstance(x, (ast.Yield, ast.YieldFrom)) for x in ast.walk(f.node)):
            return False
        from .inline import _always_exits
        from .model import walk_no_nested as _wnn

        rets = [x for x in _wnn(f.node) if isinstance(x, ast.Return)]
        if not rets or any(r.value is None or (isinstance(r.value, ast.Constant) and r.value.value is None) or isinstance(r.value, (ast.IfExp, ast.Name, ast.BoolOp)) for r in rets):
            return False
        return _always_exits(list(f.node.body))

    def _class_const(self, attr: str):
        """the value of a class-level constant read through self / cls: a literal, a dotted name (Unit.kpc) or a tuple
        of those, assigned in the class body and never stored on the instance.  Looked up from the concrete class when
        it is known (selfcls); otherwise only when no subclass of the defining class redefines the name."""
        from .model import ClassInfo

        fi = self._stack[-1]
        base = fi.cls or (fi.parent.cls if fi.parent is not None else None)
        start = self.selfcls or base
        if start is None:
            return None
        key = (start.name, id(start), attr)
        if key in self._cconst:
            return self._cconst[key]

        def simple(v) -> bool:
            if isinstance(v, ast.Constant):
                return True
            if isinstance(v, (ast.Attribute, ast.Name)):
                return bool(dotted(v)) and isinstance(v, ast.Attribute)
            if isinstance(v, ast.Tuple):
                return all(simple(x) for x in v.elts)
            if isinstance(v, ast.Dict):
                return all(k is not None and simple(k) for k in v.keys) and all(simple(x) for x in v.values)
            return False

        def body_value(c):
            record = c.is_dataclass or any((dotted(b) or "").split(".")[-1] == "NamedTuple" for b in c.node.bases)
            for st_ in c.node.body:
                tgt = val = None
                if isinstance(st_, ast.Assign) and len(st_.targets) == 1:
                    tgt, val = st_.targets[0], st_.value
                elif isinstance(st_, ast.AnnAssign) and st_.value is not None:
                    tgt, val = st_.target, st_.value
                    if record and "ClassVar" not in unparse(st_.annotation):
                        # a field of a dataclass / named tuple: the class-level value is only the default of an
                        # instance attribute that the generated constructor stores
                        if isinstance(tgt, ast.Name) and tgt.id == attr:
                            return ast.Call(func=ast.Name(id="<field>", ctx=ast.Load()), args=[], keywords=[])
                        continue
                if isinstance(tgt, ast.Name) and tgt.id == attr:
                    return val
            return None

        out = None
        try:
            mro = [k for k in self.prog.mro(start) if isinstance(k, ClassInfo)]
        except Exception:  # noqa: BLE001
            mro = [start]
        stored = any(isinstance(x, ast.Attribute) and isinstance(x.ctx, ast.Store) and x.attr == attr and isinstance(x.value, ast.Name) and x.value.id in ("self", "cls") for c in mro for m in c.methods.values() for x in ast.walk(m.node))
        if not stored:
            # … or on some other object of the program under this name (`new.attr = …`, setattr(obj, "attr", …))
            own = {id(m.node) for c in mro for m in c.methods.values()}

            def sets(x, g) -> bool:
                if isinstance(x, ast.Attribute) and isinstance(x.ctx, ast.Store) and x.attr == attr:
                    return True
                if isinstance(x, ast.Call) and ((isinstance(x.func, ast.Name) and x.func.id == "setattr") or (isinstance(x.func, ast.Attribute) and x.func.attr == "__setattr__")) and len(x.args) >= 2:
                    name = x.args[-2] if len(x.args) >= 3 or isinstance(x.func, ast.Name) else x.args[0]
                    if isinstance(name, ast.Constant):
                        return name.value == attr
                    return id(g.node) in own  # a computed name: any attribute of this hierarchy's instances
                return False

            stored = any(sets(x, g) for g in self.prog.funcs if g.module.name.split(".")[0] == fi.module.name.split(".")[0] for x in ast.walk(g.node))
        if not stored and not any(attr in c.methods for c in mro):
            for c in mro:
                v = body_value(c)
                if v is not None:
                    if simple(v):
                        out = v
                    break
            if out is not None and self.selfcls is None:
                try:
                    subs = [k for k in self.prog.subclasses(start) if k is not start]
                except Exception:  # noqa: BLE001
                    subs = []
                if any(body_value(k) is not None for k in subs):
                    out = None
        self._cconst[key] = out
        return out

    def _module_scalar(self, name: str):
        """Constant node for a module-level name bound once to a str / bytes / int / float scalar (directly or computed
        from such constants), None otherwise; parameters and locals of the current function shadow it"""
        fi = self._stack[-1]
        key = (fi.module.name, name)
        if key not in self._scalars:
            val = None
            f_ = fi
            local = False
            while f_ is not None:
                if name in f_.param_names() or name in _bound_names(f_.node.body):
                    local = True
                    break
                f_ = getattr(f_, "parent", None)
            if not local:
                from .effects import module_const_env

                try:
                    env = module_const_env(self.prog, fi.module)
                except Exception:  # noqa: BLE001
                    env = {}
                if name in env and isinstance(env[name], (str, bytes, int, float)) and not isinstance(env[name], bool):
                    val = env[name]
                elif name in env and isinstance(env[name], tuple) and 0 < len(env[name]) <= 8 and all(isinstance(x, (str, bytes, int, float)) and not isinstance(x, bool) for x in env[name]):
                    val = env[name]  # a short table of names / numbers (e.g. the dataset names of one file layout)
            self._scalars[key] = val
        v = self._scalars[key]
        if v is None:
            return None
        fi_names = fi.param_names()
        if name in fi_names:
            return None
        if isinstance(v, tuple):
            return ast.Tuple(elts=[ast.Constant(value=x) for x in v], ctx=ast.Load())
        return ast.Constant(value=v)

    # ------------------------------------------------------------------ literal containers
    def literal_items(self, it: ast.AST, fi: FuncInfo) -> list | None:
        """the elements of an iterable that is a literal sequence on this path: (a, b), [a, b],
        a module-level literal tuple, zip(...) / enumerate(...) of those, d.items()/keys()/values()
        of a dict literal"""

        def seq(e, _d=0):
            if isinstance(e, (ast.Tuple, ast.List)) and not any(isinstance(x, ast.Starred) for x in e.elts):
                return list(e.elts)
            if isinstance(e, ast.Name) and _d < 4:
                try:
                    hits = self.prog.lookup(fi.module, e.id, fi.variant)
                except Exception:  # noqa: BLE001
                    hits = []
                vals = [h.value for h in hits if getattr(h, "kind", "") == "global" and h.value is not None]
                if len(vals) == 1 and isinstance(vals[0], (ast.Tuple, ast.List)) and all(isinstance(x, ast.Constant) for x in vals[0].elts):
                    return list(vals[0].elts)
                if len(vals) == 1 and isinstance(vals[0], (ast.Subscript, ast.Name, ast.BinOp)):
                    # a module constant derived from another one (OPTIONAL = ATTR_ORDER[2:])
                    r = seq(vals[0], _d + 1)
                    if r is not None and all(isinstance(x, ast.Constant) for x in r):
                        return r
            if isinstance(e, ast.BinOp) and isinstance(e.op, ast.Add):
                l, r = seq(e.left, _d + 1), seq(e.right, _d + 1)
                if l is not None and r is not None:
                    return l + r
            if isinstance(e, ast.Attribute) and e.attr == "__slots__" and isinstance(e.value, ast.Name) and e.value.id in ("self", "cls") and fi.cls is not None:
                slots = [s_ for s_ in self.prog.all_slots(fi.cls) if not s_.startswith("__")]
                if slots and not self.prog.subclasses(fi.cls):
                    return [ast.Constant(value=s_) for s_ in (fi.cls.slots or slots)]
            if isinstance(e, ast.Subscript) and isinstance(e.slice, ast.Slice) and e.slice.step is None:
                base = seq(e.value)
                lo, hi = e.slice.lower, e.slice.upper
                if base is not None and all(b is None or (isinstance(b, ast.Constant) and isinstance(b.value, int)) for b in (lo, hi)):
                    return base[(lo.value if lo else None) : (hi.value if hi else None)]
            if isinstance(e, ast.Call) and isinstance(e.func, ast.Name) and e.func.id in ("list", "tuple") and len(e.args) == 1 and not e.keywords:
                return seq(e.args[0])
            if isinstance(e, ast.Call) and isinstance(e.func, ast.Name) and e.func.id == "zip" and e.args and not e.keywords:
                parts = [seq(a) for a in e.args]
                if all(p is not None for p in parts):
                    n = min(len(p) for p in parts)
                    return [ast.Tuple(elts=[p[i] for p in parts], ctx=ast.Load()) for i in range(n)]
            if isinstance(e, ast.Call) and isinstance(e.func, ast.Name) and e.func.id == "enumerate" and len(e.args) in (1, 2):
                base = seq(e.args[0])
                start = e.args[1] if len(e.args) == 2 else next((k.value for k in e.keywords if k.arg == "start"), ast.Constant(value=0))
                if isinstance(start, ast.Call) and isinstance(start.func, ast.Name) and start.func.id == "len" and len(start.args) == 1:
                    inner = seq(start.args[0])
                    start = ast.Constant(value=len(inner)) if inner is not None else start
                if base is not None and isinstance(start, ast.Constant) and isinstance(start.value, int) and all(k.arg == "start" for k in e.keywords):
                    return [ast.Tuple(elts=[ast.Constant(value=i), x], ctx=ast.Load()) for i, x in enumerate(base, start.value)]
            if isinstance(e, ast.Call) and isinstance(e.func, ast.Attribute) and e.func.attr in ("items", "keys", "values") and not e.args and _const_dict(e.func.value):
                d = e.func.value
                if e.func.attr == "keys":
                    return list(d.keys)
                if e.func.attr == "values":
                    return list(d.values)
                return [ast.Tuple(elts=[kk, vv], ctx=ast.Load()) for kk, vv in zip(d.keys, d.values)]
            if _const_dict(e):
                return list(e.keys)
            return None

        return seq(it)

    def _expand_comprehension(self, n, st: "_State", shadow, rb):
        """[f(x) for x in (a, b) if c(x)] -> [f(a), f(b)] when the iterable is a literal sequence on this
        path and every filter is decided; None when it cannot be expanded"""
        if len(n.generators) != 1 or n.generators[0].is_async:
            return None
        g = n.generators[0]
        it = rb(g.iter, shadow)
        fi = self._stack[-1] if self._stack else None
        if fi is None:
            return None
        items = self.literal_items(it, fi)
        if items is None or len(items) > 8:
            return None
        keys, vals = [], []
        for item in items:
            tmp = _State()
            tmp.store = dict(st.store)
            tmp.repl = st.repl
            tmp.known = st.known
            tmp.conds = st.conds
            # bind the comprehension target(s) in a throw-away store
            def bind(t, v):
                if isinstance(t, ast.Name):
                    tmp.store[t.id] = v
                    return True
                if isinstance(t, (ast.Tuple, ast.List)) and isinstance(v, (ast.Tuple, ast.List)) and len(t.elts) == len(v.elts):
                    return all(bind(a, b) for a, b in zip(t.elts, v.elts))
                return False

            if not bind(g.target, item):
                return None
            keep = True
            for c in g.ifs:
                d = self.decide(self.subst(c, tmp, shadow), st)
                if d is None:
                    return None
                if d is False:
                    keep = False
                    break
            if not keep:
                continue
            if isinstance(n, ast.DictComp):
                kk = self.subst(n.key, tmp, shadow)
                if not isinstance(kk, ast.Constant):
                    return None
                keys.append(kk)
                vals.append(self.subst(n.value, tmp, shadow))
            else:
                vals.append(self.subst(n.elt, tmp, shadow))
        if isinstance(n, ast.DictComp):
            return ast.Dict(keys=keys, values=vals)
        if isinstance(n, ast.ListComp):
            return ast.List(elts=vals, ctx=ast.Load())
        if isinstance(n, ast.SetComp):
            return None
        return ast.Tuple(elts=vals, ctx=ast.Load())

    def _simplify_call(self, n: ast.Call) -> ast.AST:
        """getattr(x, "name") -> x.name;  list(<literal>) / tuple(<literal>) -> literal;  (lambda p: e)(a) -> e[p:=a];
        functional idioms read as the expression they stand for: operator.add(a, b) -> a + b, itemgetter(i)(x) -> x[i],
        attrgetter("a")(x) -> x.a, methodcaller("m")(x) -> x.m(), partial(f, a)(b) -> f(a, b), map / starmap / filter ->
        generator expressions, reduce over a literal -> the folded expression, dict(zip(<literals>)) -> dict literal"""
        n = self._functional(n)
        if not isinstance(n, ast.Call):
            return n
        if isinstance(n.func, ast.Lambda) and not any(isinstance(x, ast.Starred) for x in n.args) and not any(k.arg is None for k in n.keywords):
            # a callback that was bound to a parameter and is called: beta reduction (arguments that contain calls
            # are only substituted when the parameter is read once)
            la = n.func.args
            if not (la.vararg or la.kwarg or la.kwonlyargs or la.posonlyargs):
                names = [p_.arg for p_ in la.args]
                bind = dict(zip(names, n.args)) if len(n.args) <= len(names) else None
                if bind is not None:
                    for k in n.keywords:
                        if k.arg in names and k.arg not in bind:
                            bind[k.arg] = k.value
                        else:
                            bind = None
                            break
                if bind is not None:
                    for p_, d_ in zip(names[len(names) - len(la.defaults) :], la.defaults):
                        bind.setdefault(p_, d_)
                    uses = {p_: sum(1 for y in ast.walk(n.func.body) if isinstance(y, ast.Name) and y.id == p_) for p_ in names}
                    if all(p_ in bind for p_ in names) and not any(uses[p_] > 1 and any(isinstance(y, ast.Call) for y in ast.walk(bind[p_])) for p_ in names):

                        class _S(ast.NodeTransformer):
                            def visit_Name(self, m):
                                if isinstance(m.ctx, ast.Load) and m.id in bind:
                                    return copy.deepcopy(bind[m.id])
                                return m

                        return _S().visit(copy.deepcopy(n.func.body))
        if isinstance(n.func, ast.Name) and n.func.id == "getattr" and len(n.args) == 2 and not n.keywords and isinstance(n.args[1], ast.Constant) and isinstance(n.args[1].value, str) and n.args[1].value.isidentifier():
            return ast.Attribute(value=n.args[0], attr=n.args[1].value, ctx=ast.Load())
        if isinstance(n.func, ast.Name) and n.func.id == "dict" and all(k.arg is not None for k in n.keywords) and (not n.args or (len(n.args) == 1 and _const_dict(n.args[0]))):
            keys = list(n.args[0].keys) if n.args else []
            vals = list(n.args[0].values) if n.args else []
            for k in n.keywords:
                for i, kk in enumerate(keys):
                    if kk.value == k.arg:
                        vals[i] = k.value
                        break
                else:
                    keys.append(ast.Constant(value=k.arg))
                    vals.append(k.value)
            return ast.Dict(keys=keys, values=vals)
        if any(k.arg is None and _const_dict(k.value) and all(isinstance(kk.value, str) for kk in k.value.keys) for k in n.keywords):
            kws = []
            for k in n.keywords:
                if k.arg is None and _const_dict(k.value) and all(isinstance(kk.value, str) for kk in k.value.keys):
                    kws.extend(ast.keyword(arg=kk.value, value=vv) for kk, vv in zip(k.value.keys, k.value.values))
                else:
                    kws.append(k)
            n = copy.copy(n)
            n.keywords = kws
            return n
        if isinstance(n.func, ast.Name) and n.func.id in ("list", "tuple") and len(n.args) == 1 and not n.keywords and isinstance(n.args[0], (ast.List, ast.Tuple)) and not any(isinstance(x, ast.Starred) for x in n.args[0].elts):
            elts = list(n.args[0].elts)
            return ast.List(elts=elts, ctx=ast.Load()) if n.func.id == "list" else ast.Tuple(elts=elts, ctx=ast.Load())
        if isinstance(n.func, ast.Name) and n.func.id in ("list", "tuple") and len(n.args) == 1 and not n.keywords and isinstance(n.args[0], (ast.Name, ast.Subscript)) and self._stack:
            items = self.literal_items(n.args[0], self._stack[-1])  # a module-level literal tuple
            if items is not None and all(isinstance(x, ast.Constant) for x in items):
                return ast.List(elts=list(items), ctx=ast.Load()) if n.func.id == "list" else ast.Tuple(elts=list(items), ctx=ast.Load())
        return n

    _BINOPS = {
        "add": ast.Add, "sub": ast.Sub, "mul": ast.Mult, "truediv": ast.Div, "floordiv": ast.FloorDiv, "mod": ast.Mod, "pow": ast.Pow,
        "or_": ast.BitOr, "and_": ast.BitAnd, "xor": ast.BitXor, "lshift": ast.LShift, "rshift": ast.RShift, "matmul": ast.MatMult,
    }  # fmt: skip
    _CMPOPS = {"eq": ast.Eq, "ne": ast.NotEq, "lt": ast.Lt, "le": ast.LtE, "gt": ast.Gt, "ge": ast.GtE, "is_": ast.Is, "is_not": ast.IsNot, "contains": None}

    def _functional(self, n: ast.Call, _depth: int = 0) -> ast.AST:
        if _depth > 4:
            return n
        fn = (dotted(n.func) or "").split(".")
        last = fn[-1] if fn else ""
        qual_ok = len(fn) == 1 or fn[0] in ("operator", "functools", "itertools", "op")
        plain = not n.keywords and not any(isinstance(x, ast.Starred) for x in n.args)
        # f(*(<literal tuple>)) -> f(a, b, …)
        if any(isinstance(x, ast.Starred) and isinstance(x.value, (ast.Tuple, ast.List)) and not any(isinstance(y, ast.Starred) for y in x.value.elts) for x in n.args):
            args = []
            for x in n.args:
                if isinstance(x, ast.Starred) and isinstance(x.value, (ast.Tuple, ast.List)) and not any(isinstance(y, ast.Starred) for y in x.value.elts):
                    args.extend(x.value.elts)
                else:
                    args.append(x)
            n = copy.copy(n)
            n.args = args
            return self._functional(n, _depth + 1)
        if qual_ok and plain and last in self._BINOPS and len(n.args) == 2 and (len(fn) == 2 or last.endswith("_")):
            return ast.BinOp(left=n.args[0], op=self._BINOPS[last](), right=n.args[1])
        if len(fn) == 2 and fn[0] in ("operator", "op") and plain and last in self._CMPOPS and len(n.args) == 2:
            if last == "contains":
                return ast.Compare(left=n.args[1], ops=[ast.In()], comparators=[n.args[0]])
            return ast.Compare(left=n.args[0], ops=[self._CMPOPS[last]()], comparators=[n.args[1]])
        if len(fn) == 2 and fn[0] in ("operator", "op") and plain and last == "getitem" and len(n.args) == 2:
            return ast.Subscript(value=n.args[0], slice=n.args[1], ctx=ast.Load())
        if len(fn) == 2 and fn[0] in ("operator", "op") and plain and last in ("not_", "truth", "neg") and len(n.args) == 1:
            return ast.UnaryOp(op=ast.Not() if last == "not_" else ast.USub(), operand=n.args[0]) if last != "truth" else ast.Call(func=ast.Name(id="bool", ctx=ast.Load()), args=n.args, keywords=[])
        # calls of the getter / caller objects
        if isinstance(n.func, ast.Call) and plain and len(n.args) == 1:
            inner = n.func
            ifn = (dotted(inner.func) or "").split(".")[-1]
            if ifn == "itemgetter" and len(inner.args) == 1 and not inner.keywords:
                return self._simplify(ast.Subscript(value=n.args[0], slice=inner.args[0], ctx=ast.Load()))
            if ifn == "itemgetter" and len(inner.args) > 1 and not inner.keywords:
                return ast.Tuple(elts=[self._simplify(ast.Subscript(value=n.args[0], slice=a_, ctx=ast.Load())) for a_ in inner.args], ctx=ast.Load())
            if ifn == "attrgetter" and len(inner.args) == 1 and isinstance(inner.args[0], ast.Constant) and isinstance(inner.args[0].value, str) and not inner.keywords:
                e = n.args[0]
                for part in inner.args[0].value.split("."):
                    e = ast.Attribute(value=e, attr=part, ctx=ast.Load())
                return e
            if ifn == "methodcaller" and inner.args and isinstance(inner.args[0], ast.Constant) and isinstance(inner.args[0].value, str):
                return ast.Call(func=ast.Attribute(value=n.args[0], attr=inner.args[0].value, ctx=ast.Load()), args=list(inner.args[1:]), keywords=list(inner.keywords))
        if isinstance(n.func, ast.Call) and (dotted(n.func.func) or "").split(".")[-1] == "partial" and n.func.args and not any(isinstance(x, ast.Starred) for x in n.func.args) and not any(k.arg is None for k in n.func.keywords):
            inner = n.func
            given = {k.arg for k in n.keywords if k.arg}
            new = ast.Call(func=inner.args[0], args=list(inner.args[1:]) + list(n.args), keywords=list(n.keywords) + [k for k in inner.keywords if k.arg not in given])
            return self._simplify_call(new)
        # map / starmap / filter -> generator expressions (the element variable is a fresh name)
        if last in ("map", "starmap", "filter") and qual_ok and not n.keywords and len(n.args) == 2 and not any(isinstance(x, ast.Starred) for x in n.args):
            self._tmp += 1
            v = f"_m{self._tmp}"
            f, it = n.args
            var = ast.Name(id=v, ctx=ast.Load())
            if last == "map":
                elt = self._simplify_call(ast.Call(func=f, args=[var], keywords=[]))
                return ast.GeneratorExp(elt=elt, generators=[ast.comprehension(target=ast.Name(id=v, ctx=ast.Store()), iter=it, ifs=[], is_async=0)])
            if last == "starmap":
                elt = ast.Call(func=f, args=[ast.Starred(value=var, ctx=ast.Load())], keywords=[])
                return ast.GeneratorExp(elt=elt, generators=[ast.comprehension(target=ast.Name(id=v, ctx=ast.Store()), iter=it, ifs=[], is_async=0)])
            cond = var if (isinstance(f, ast.Constant) and f.value is None) else self._simplify_call(ast.Call(func=f, args=[var], keywords=[]))
            return ast.GeneratorExp(elt=var, generators=[ast.comprehension(target=ast.Name(id=v, ctx=ast.Store()), iter=it, ifs=[cond], is_async=0)])
        if last == "map" and qual_ok and not n.keywords and len(n.args) > 2 and not any(isinstance(x, ast.Starred) for x in n.args):
            z = ast.Call(func=ast.Name(id="zip", ctx=ast.Load()), args=list(n.args[1:]), keywords=[])
            return self._functional(ast.Call(func=ast.Name(id="starmap", ctx=ast.Load()), args=[n.args[0], z], keywords=[]), _depth + 1)
        # reduce over a literal sequence
        if last == "reduce" and qual_ok and not n.keywords and len(n.args) in (2, 3) and self._stack:
            items = self.literal_items(n.args[1], self._stack[-1])
            if items is not None and len(items) <= 8 and (len(n.args) == 3 or items):
                acc = n.args[2] if len(n.args) == 3 else items[0]
                for x in items if len(n.args) == 3 else items[1:]:
                    acc = self._simplify_call(ast.Call(func=n.args[0], args=[acc, x], keywords=[]))
                return acc
        # dict(zip(<literal keys>, <literal values>)) / dict(<pairs>)
        if last == "dict" and len(fn) == 1 and len(n.args) == 1 and not n.keywords and self._stack:
            a0 = n.args[0]
            items = self.literal_items(a0, self._stack[-1]) if not _const_dict(a0) else None
            if items is not None and len(items) <= 16 and all(isinstance(x, (ast.Tuple, ast.List)) and len(x.elts) == 2 and isinstance(x.elts[0], ast.Constant) for x in items):
                return ast.Dict(keys=[x.elts[0] for x in items], values=[x.elts[1] for x in items])
            if isinstance(a0, ast.GeneratorExp) and isinstance(a0.elt, (ast.Tuple, ast.List)) and len(a0.elt.elts) == 2:
                return ast.DictComp(key=a0.elt.elts[0], value=a0.elt.elts[1], generators=a0.generators)
        return n

    @staticmethod
    def _simplify_fstring(n: ast.JoinedStr) -> ast.AST:
        parts = []
        for v in n.values:
            if isinstance(v, ast.Constant):
                parts.append(str(v.value))
            elif isinstance(v, ast.FormattedValue) and v.format_spec is None and v.conversion == -1 and isinstance(v.value, ast.Constant) and isinstance(v.value.value, str):
                parts.append(v.value.value)
            else:
                return n
        return ast.Constant(value="".join(parts))

    def _simplify(self, n: ast.AST) -> ast.AST:
        """local rewrites on freshly substituted nodes: {k: v}[k] -> v, C(f=v).f -> v for dataclasses"""
        if isinstance(n, ast.Subscript) and isinstance(n.slice, ast.Constant) and _const_dict(n.value):
            for kk, vv in zip(n.value.keys, n.value.values):
                if kk.value == n.slice.value:
                    return vv
        if isinstance(n, ast.Subscript) and isinstance(n.slice, ast.Constant) and isinstance(n.slice.value, int) and isinstance(n.value, (ast.Tuple, ast.List)):
            elts = n.value.elts
            if -len(elts) <= n.slice.value < len(elts) and not any(isinstance(x, ast.Starred) for x in elts):
                return elts[n.slice.value]
        if isinstance(n, ast.Attribute) and isinstance(n.value, ast.Call) and n.value.keywords and not n.value.args:
            kws = {kw.arg: kw.value for kw in n.value.keywords if kw.arg}
            if n.attr in kws:
                cname = (dotted(n.value.func) or "").split(".")[-1].lstrip("_")
                full = (dotted(n.value.func) or "").split(".")[-1]
                cis = self.prog.find_classes(full) if cname[:1].isupper() else []

                def plain_record(c) -> bool:
                    # a dataclass without __post_init__, or a typing.NamedTuple: the constructor stores its keywords as fields
                    is_nt = any((dotted(b) or "").split(".")[-1] == "NamedTuple" for b in c.node.bases)
                    return (c.is_dataclass and "__post_init__" not in c.methods or is_nt) and n.attr not in c.methods and "__new__" not in c.methods and "__init__" not in c.methods

                if cis and all(plain_record(c) for c in cis):
                    return kws[n.attr]
        return n

    # ------------------------------------------------------------------ three-valued tests
    def decide(self, t: ast.AST, st: _State):
        def tv(e):
            if self.oracle is not None:
                o = self.oracle(e)
                if o is not None:
                    return o
            txt = unparse(e)
            if txt in st.known:
                return st.known[txt]
            if txt in self.facts:
                return self.facts[txt]
            if isinstance(e, ast.Constant):
                return bool(e.value)
            if isinstance(e, ast.Compare) and len(e.ops) == 1 and isinstance(e.ops[0], (ast.Is, ast.IsNot)) and isinstance(e.comparators[0], ast.Constant) and e.comparators[0].value is None and isinstance(e.left, ast.Call):
                # the result of a package function that returns a value on every path is never None
                if self._never_none(e.left):
                    return isinstance(e.ops[0], ast.IsNot)
            if isinstance(e, ast.UnaryOp) and isinstance(e.op, ast.Not):
                v = tv(e.operand)
                return None if v is None else (not v)
            if isinstance(e, ast.BoolOp):
                vals = [tv(v) for v in e.values]
                if isinstance(e.op, ast.And):
                    if any(v is False for v in vals):
                        return False
                    return True if all(v is True for v in vals) else None
                if any(v is True for v in vals):
                    return True
                return False if all(v is False for v in vals) else None
            if isinstance(e, ast.Call) and isinstance(e.func, ast.Name) and e.func.id in ("any", "all") and len(e.args) == 1 and not e.keywords and isinstance(e.args[0], (ast.Tuple, ast.List)) and not any(isinstance(x, ast.Starred) for x in e.args[0].elts):
                vals = [tv(x) for x in e.args[0].elts]
                if e.func.id == "all":
                    if any(v is False for v in vals):
                        return False
                    return True if all(v is True for v in vals) else None
                if any(v is True for v in vals):
                    return True
                return False if all(v is False for v in vals) else None
            if isinstance(e, ast.Compare) and len(e.ops) == 1 and isinstance(e.ops[0], (ast.In, ast.NotIn)) and isinstance(e.left, ast.Constant):
                c = e.comparators[0]
                keys = None
                if _const_dict(c):
                    keys = [kk.value for kk in c.keys]
                elif isinstance(c, (ast.Tuple, ast.List, ast.Set)) and all(isinstance(x, ast.Constant) for x in c.elts):
                    keys = [x.value for x in c.elts]
                if keys is not None:
                    r = e.left.value in keys
                    return r if isinstance(e.ops[0], ast.In) else not r
            if isinstance(e, ast.Compare) and len(e.ops) == 1 and isinstance(e.ops[0], (ast.Is, ast.IsNot)) and isinstance(e.comparators[0], ast.Constant) and e.comparators[0].value is None:
                # `x is None` for an x that is syntactically a fresh object
                if isinstance(e.left, (ast.Call, ast.List, ast.Dict, ast.Tuple, ast.BinOp, ast.JoinedStr)) and not (isinstance(e.left, ast.Call) and (dotted(e.left.func) or "").split(".")[-1] in ("get", "pop", "getattr", ELEM, LOOP, ENTER)):
                    pass  # a call may return None: undecided
                if isinstance(e.left, ast.Constant):
                    r = e.left.value is None
                    return r if isinstance(e.ops[0], ast.Is) else not r
                fresh = isinstance(e.left, (ast.Dict, ast.List, ast.Tuple, ast.Set, ast.JoinedStr, ast.BinOp, ast.ListComp, ast.DictComp, ast.Compare))
                if isinstance(e.left, ast.Call):
                    nm_ = (dotted(e.left.func) or unparse(e.left.func)).split(".")[-1]
                    fresh = nm_ in ("str", "int", "float", "list", "dict", "tuple", "bool", "set", "tolist", "copy", "to_dict", "Path", "sorted") or (nm_[:1].isupper() and bool(self.prog.find_classes(nm_)))
                if fresh:
                    return not isinstance(e.ops[0], ast.Is)
            try:
                return bool(eval_test(e, self.env))
            except Unknown:
                pass
            except Exception:  # noqa: BLE001 - malformed environment entries must not kill the exploration
                pass
            if isinstance(e, ast.Compare) and all(isinstance(x, ast.Constant) for x in [e.left, *e.comparators]):
                try:
                    return bool(ceval(e, {}))
                except Exception:  # noqa: BLE001
                    pass
            return unit(e, txt)

        busy: set = set()

        def unit(e, txt):
            """unit propagation over the compound tests already decided on this path:
            (a and b) is False, a is True  =>  b is False; (a or b) is True, a is False => b is True"""
            if txt in busy:
                return None
            busy.add(txt)
            try:
                for c, pol, _ in st.conds:
                    if isinstance(c, ast.UnaryOp) and isinstance(c.op, ast.Not):
                        c, pol = c.operand, not pol
                    if not isinstance(c, ast.BoolOp):
                        continue
                    is_and = isinstance(c.op, ast.And)
                    if is_and == pol:
                        continue  # (and, True) / (or, False) were decomposed by _assume already
                    for i, m in enumerate(c.values):
                        neg = isinstance(m, ast.UnaryOp) and isinstance(m.op, ast.Not)
                        mt = unparse(m.operand) if neg else unparse(m)
                        if mt != txt:
                            continue
                        others = [tv(o) for j, o in enumerate(c.values) if j != i]
                        if is_and and all(o is True for o in others):
                            return True if neg else False  # member must be False
                        if not is_and and all(o is False for o in others):
                            return False if neg else True  # member must be True
                return None
            finally:
                busy.discard(txt)

        return tv(t)

    def _reduce(self, t: ast.AST, st: _State) -> ast.AST:
        """drop the members of and/or tests that are already decided on this path"""
        if isinstance(t, ast.BoolOp):
            is_and = isinstance(t.op, ast.And)
            keep = []
            for v in t.values:
                v = self._reduce(v, st)
                d = self.decide(v, st)
                if d is None:
                    keep.append(v)
                elif d != is_and:
                    return ast.Constant(value=d)
            if not keep:
                return ast.Constant(value=is_and)
            if len(keep) == 1:
                return keep[0]
            new = copy.copy(t)
            new.values = keep
            return new
        if isinstance(t, ast.UnaryOp) and isinstance(t.op, ast.Not):
            inner = self._reduce(t.operand, st)
            if inner is not t.operand:
                new = copy.copy(t)
                new.operand = inner
                return new
        return t

    def _assume(self, t: ast.AST, pol: bool, st: _State, node: ast.AST) -> None:
        t = self._reduce(t, st)
        st.conds.append((t, pol, node))

        def learn(e, p):
            st.known[unparse(e)] = p
            if isinstance(e, ast.UnaryOp) and isinstance(e.op, ast.Not):
                learn(e.operand, not p)
            elif isinstance(e, ast.BoolOp):
                if isinstance(e.op, ast.And) and p:
                    for v in e.values:
                        learn(v, True)
                if isinstance(e.op, ast.Or) and not p:
                    for v in e.values:
                        learn(v, False)
            elif isinstance(e, ast.Call) and isinstance(e.func, ast.Name) and e.func.id in ("all", "any") and len(e.args) == 1 and isinstance(e.args[0], (ast.Tuple, ast.List)) and (e.func.id == "all") == p:
                for v in e.args[0].elts:  # all(...) true / any(...) false: every member is decided
                    learn(v, p)
            elif isinstance(e, ast.Compare) and len(e.ops) == 1:
                flip = {ast.Is: ast.IsNot, ast.IsNot: ast.Is, ast.Eq: ast.NotEq, ast.NotEq: ast.Eq, ast.Lt: ast.GtE, ast.GtE: ast.Lt, ast.Gt: ast.LtE, ast.LtE: ast.Gt, ast.In: ast.NotIn, ast.NotIn: ast.In}
                k = flip.get(type(e.ops[0]))
                if k is not None:
                    e2 = copy.copy(e)
                    e2.ops = [k()]
                    st.known[unparse(e2)] = not p

        learn(t, pol)

    # ------------------------------------------------------------------ helpers
    def _emit(self, st: _State, kind: str, expr, value, node, fi, depth, inlined=False) -> Event:
        ev = Event(kind, expr, value, node, fi, depth, st.loops, inlined, st.handler)
        st.events.append(ev)
        return ev

    def _bind(self, target: ast.AST, value: ast.AST, st: _State, fi, depth, node) -> None:
        if isinstance(target, ast.Name):
            st.store[target.id] = value
            if isinstance(value, ast.List):
                st.born[target.id] = st.loops
            else:
                st.born.pop(target.id, None)
        elif isinstance(target, (ast.Tuple, ast.List)):
            if isinstance(value, (ast.Tuple, ast.List)) and len(value.elts) == len(target.elts) and not any(isinstance(e, ast.Starred) for e in [*value.elts, *target.elts]):
                for t, v in zip(target.elts, value.elts):
                    self._bind(t, v, st, fi, depth, node)
            else:
                items = self.literal_items(value, fi) if isinstance(value, (ast.Name, ast.Attribute)) else None
                if items is not None and len(items) == len(target.elts) and not any(isinstance(t, ast.Starred) for t in target.elts):
                    for t, v in zip(target.elts, items):
                        self._bind(t, v, st, fi, depth, node)
                    return
                for i, t in enumerate(target.elts):
                    if isinstance(t, ast.Starred):
                        self._bind(t.value, ast.Subscript(value=value, slice=ast.Slice(lower=ast.Constant(value=i), upper=None, step=None), ctx=ast.Load()), st, fi, depth, node)
                    else:
                        self._bind(t, ast.Subscript(value=value, slice=ast.Constant(value=i), ctx=ast.Load()), st, fi, depth, node)
        elif isinstance(target, ast.Attribute):
            tsub = copy.copy(target)
            tsub.value = self.subst(target.value, st)
            self._emit(st, "store", tsub, value, node, fi, depth)
            d = dotted(target)
            if d:
                st.store[d] = value
                # a store to a.b invalidates remembered a.b.c
                for k in [k for k in st.store if k.startswith(d + ".")]:
                    del st.store[k]
        elif isinstance(target, ast.Subscript):
            tsub = copy.copy(target)
            tsub.value = self.subst(target.value, st)
            tsub.slice = self.subst(target.slice, st)
            self._emit(st, "store", tsub, value, node, fi, depth)
            # d[k] = v on a dict literal that is still owned by a local name: functional update of the literal
            if isinstance(target.value, ast.Name) and target.value.id in st.store and isinstance(tsub.slice, ast.Constant):
                cur = st.store[target.value.id]
                if isinstance(cur, ast.Call) and isinstance(cur.func, ast.Name) and cur.func.id == "dict" and not cur.args and not cur.keywords:
                    cur = ast.Dict(keys=[], values=[])
                if _const_dict(cur):
                    keys, vals = list(cur.keys), list(cur.values)
                    for i, kk in enumerate(keys):
                        if kk.value == tsub.slice.value:
                            vals[i] = value
                            break
                    else:
                        keys.append(tsub.slice)
                        vals.append(value)
                    st.store[target.value.id] = ast.Dict(keys=keys, values=vals)
                    return
            # any other element store into a container held by a local: the container's value now depends on it
            if isinstance(target.value, ast.Name) and target.value.id in st.store:
                cur = st.store[target.value.id]
                st.store[target.value.id] = ast.Call(func=ast.Name(id=SETITEM, ctx=ast.Load()), args=[cur, tsub.slice, value], keywords=[])

    def _walrus(self, expr: ast.AST, st: _State, fi, depth) -> None:
        for n in ast.walk(expr):
            if isinstance(n, ast.NamedExpr) and isinstance(n.target, ast.Name):
                st.store[n.target.id] = self.subst(n.value, st)

    # ------------------------------------------------------------------ calls (events + inlining)
    def _calls(self, exprs, st: _State, fi: FuncInfo, depth: int, k: _Kont, then):
        calls: list[ast.Call] = []
        for e in exprs:
            if e is not None:
                calls.extend(calls_in_order(e))
                self._map_comprehensions(e, ())
        if self.watch is not None:
            watched = [n for e in exprs if e is not None for n in ast.walk(e) if self.watch(n)]
            if watched:
                inner = then

                def then(s2, inner=inner, watched=watched):
                    for n in watched:
                        self._emit(s2, "expr", self.subst(n, self._in_comprehension(n, s2, fi, depth)), None, n, fi, depth)
                    return inner(s2)

        yield from self._calls_from(calls, 0, st, fi, depth, k, then)

    def _map_comprehensions(self, n: ast.AST, gens: tuple) -> None:
        """remember for every call inside a comprehension the generators whose targets are in scope"""
        if isinstance(n, (ast.ListComp, ast.SetComp, ast.GeneratorExp, ast.DictComp)):
            acc = gens
            for g in n.generators:
                self._map_comprehensions(g.iter, acc)
                acc = acc + (g,)
                for c in g.ifs:
                    self._map_comprehensions(c, acc)
            for part in ([n.key, n.value] if isinstance(n, ast.DictComp) else [n.elt]):
                self._map_comprehensions(part, acc)
            return
        if gens and (isinstance(n, ast.Call) or (self.watch is not None and self.watch(n))):
            self._comp_of[id(n)] = gens
        for ch in ast.iter_child_nodes(n):
            self._map_comprehensions(ch, gens)

    def _in_comprehension(self, c: ast.Call, st: _State, fi, depth) -> _State:
        """a throw-away state in which the targets of the comprehensions enclosing the call are bound to
        ELEM(<iterable>) (so that arguments taken from the loop variable keep their origin)"""
        gens = self._comp_of.get(id(c))
        if not gens:
            return st
        tmp = _State()
        tmp.store = dict(st.store)
        tmp.repl = st.repl
        tmp.known = st.known
        tmp.conds = st.conds
        tmp.loops = st.loops
        for g in gens:
            it = self.subst(g.iter, tmp)
            self._bind(g.target, ast.Call(func=ast.Name(id=ELEM, ctx=ast.Load()), args=[it], keywords=[]), tmp, fi, depth, g)
        return tmp

    def _calls_from(self, calls, i, st, fi, depth, k, then):
        while i < len(calls):
            c = calls[i]
            i += 1
            st.repl.pop(id(c), None)  # a call that is evaluated again (unrolled loop): its earlier value is not reused
            targets = None
            if self.inline is not None and depth < self.max_depth:
                try:
                    tg_ = self.prog.resolve_call(fi, c)
                    # a callee found only by method name over the class hierarchy (receiver type unknown, e.g.
                    # `some_set.add(x)`) is not looked through
                    funcs = tg_.funcs() if getattr(tg_, "precise", True) else []
                except Exception:  # noqa: BLE001
                    funcs = []
                if len(funcs) != 1 and isinstance(c.func, ast.Name) and c.func.id in st.store and isinstance(st.store[c.func.id], ast.Name):
                    # a local that holds a module-level function on this path (`read = _read_current`)
                    try:
                        hits = [h for h in self.prog.lookup(fi.module, st.store[c.func.id].id, fi.variant) if getattr(h, "kind", "") == "func"]
                    except Exception:  # noqa: BLE001
                        hits = []
                    if len(hits) == 1:
                        funcs = hits
                if len(funcs) != 1 and isinstance(c.func, ast.Subscript) and isinstance(c.func.value, ast.Name):
                    # TABLE[key](…) with a key that is known on this path
                    fsub = self.subst(c.func, st)
                    if isinstance(fsub, ast.Name):
                        try:
                            hits = [h for h in self.prog.lookup(fi.module, fsub.id, fi.variant) if getattr(h, "kind", "") == "func"]
                        except Exception:  # noqa: BLE001
                            hits = []
                        if len(hits) == 1:
                            funcs = hits
                if len(funcs) == 1 and funcs[0] not in self._stack and funcs[0] is not fi and self.inline(fi, c, funcs[0]):
                    targets = funcs[0]
            csub = self.subst(c, self._in_comprehension(c, st, fi, depth))
            if targets is not None and self._stipulated(c, csub):
                targets = None  # the rule fixes this call's value (environment / oracle): it is not explored
            if isinstance(c.func, ast.Attribute) and isinstance(c.func.value, ast.Name) and c.func.attr in ("append", "extend") and len(c.args) == 1 and not c.keywords and not self._comp_of.get(id(c)):
                cur = st.store.get(c.func.value.id)
                if isinstance(cur, ast.List) and not any(isinstance(x, ast.Starred) for x in cur.elts):
                    arg = csub.args[0]
                    born = st.born.get(c.func.value.id)
                    if c.func.attr == "append" and born is not None and len(st.loops) > len(born) and st.loops[: len(born)] == born:
                        # appended in a loop that the list was created outside of: any number of such items
                        st.store[c.func.value.id] = ast.List(elts=[*cur.elts, ast.Starred(value=ast.Call(func=ast.Name(id=LOOP, ctx=ast.Load()), args=[arg], keywords=[]), ctx=ast.Load())], ctx=ast.Load())
                    elif c.func.attr == "append":
                        st.store[c.func.value.id] = ast.List(elts=[*cur.elts, arg], ctx=ast.Load())
                    else:
                        items = self.literal_items(arg, fi)
                        if items is not None:
                            st.store[c.func.value.id] = ast.List(elts=[*cur.elts, *items], ctx=ast.Load())
                        else:
                            st.store[c.func.value.id] = ast.List(elts=[*cur.elts, ast.Starred(value=arg, ctx=ast.Load())], ctx=ast.Load())
            if isinstance(c.func, ast.Attribute) and isinstance(c.func.value, ast.Name) and c.func.attr in ("pop", "get", "copy", "update") and not self._comp_of.get(id(c)):
                dname = c.func.value.id
                cur = st.store.get(dname)
                if cur is not None and not _const_dict(cur) and isinstance(cur, ast.Call):
                    cur = self._simplify_call(cur)
                if _const_dict(cur):
                    meth = c.func.attr
                    keys, vals = list(cur.keys), list(cur.values)
                    handled = True
                    val = None
                    if meth in ("pop", "get") and csub.args and isinstance(csub.args[0], ast.Constant):
                        key = csub.args[0].value
                        idx = next((i for i, kk in enumerate(keys) if kk.value == key), None)
                        if idx is not None:
                            val = vals[idx]
                            if meth == "pop":
                                del keys[idx], vals[idx]
                                st.store[dname] = ast.Dict(keys=keys, values=vals)
                        elif len(csub.args) > 1:
                            val = csub.args[1]
                            self._emit(st, "defaulted", ast.Constant(value=key), cur, c, fi, depth)  # key absent: the default stands in
                        elif meth == "get":
                            val = ast.Constant(value=None)
                            self._emit(st, "defaulted", ast.Constant(value=key), cur, c, fi, depth)
                        else:
                            self._emit(st, "call", csub, None, c, fi, depth)
                            self._emit(st, "keyerror", ast.Constant(value=key), cur, c, fi, depth)
                            yield from k.exc(st, ast.Call(func=ast.Name(id="KeyError", ctx=ast.Load()), args=[ast.Constant(value=key)], keywords=[]), c)
                            return
                    elif meth == "copy" and not csub.args:
                        val = ast.Dict(keys=keys, values=vals)
                    elif meth == "update" and ((len(csub.args) == 1 and _const_dict(self._simplify_call(csub.args[0]) if isinstance(csub.args[0], ast.Call) else csub.args[0])) or (not csub.args and csub.keywords and all(k_.arg for k_ in csub.keywords))):
                        other = (self._simplify_call(csub.args[0]) if isinstance(csub.args[0], ast.Call) else csub.args[0]) if csub.args else ast.Dict(keys=[ast.Constant(value=k_.arg) for k_ in csub.keywords], values=[k_.value for k_ in csub.keywords])
                        for kk, vv in zip(other.keys, other.values):
                            j = next((i for i, k2 in enumerate(keys) if k2.value == kk.value), None)
                            if j is None:
                                keys.append(kk)
                                vals.append(vv)
                            else:
                                vals[j] = vv
                        st.store[dname] = ast.Dict(keys=keys, values=vals)
                        val = ast.Constant(value=None)
                    else:
                        handled = False
                    if handled:
                        self._emit(st, "call", csub, None, c, fi, depth)
                        self._tmp += 1
                        tmp = f"⟨dict{self._tmp}⟩"
                        st.store[tmp] = val
                        st.repl[id(c)] = tmp
                        continue
            if self.call_value is not None:
                try:
                    fs = self.prog.resolve_call(fi, c).funcs()
                except Exception:  # noqa: BLE001
                    fs = []
                ov = self.call_value(fi, c, fs)
                if ov is not None:
                    self._emit(st, "call", csub, None, c, fi, depth)
                    self._tmp += 1
                    tmp = f"⟨val{self._tmp}⟩"
                    st.store[tmp] = ov
                    st.repl[id(c)] = tmp
                    continue
            if targets is None or not self._bindable(csub, targets):  # (the substituted call: a ** dictionary that is known on this path is already spread)
                self._emit(st, "call", csub, None, c, fi, depth)
                # numpy's `out=` protocol: f(a, b, out=v) stores the result in v (where=m: only where m holds)
                outk = next((kw for kw in c.keywords if kw.arg == "out" and isinstance(kw.value, ast.Name)), None)
                if outk is not None and isinstance(c.func, ast.Attribute) and (dotted(c.func.value) or "") in ("np", "numpy") and isinstance(csub, ast.Call):
                    pure = copy.copy(csub)
                    pure.keywords = [kw for kw in csub.keywords if kw.arg not in ("out", "where")]
                    wh = next((kw.value for kw in csub.keywords if kw.arg == "where"), None)
                    old_v = st.store.get(outk.value.id, ast.Name(id=outk.value.id, ctx=ast.Load()))
                    new_v = pure if wh is None else ast.Call(func=ast.Attribute(value=ast.Name(id="np", ctx=ast.Load()), attr="where", ctx=ast.Load()), args=[wh, pure, old_v], keywords=[])
                    st.store[outk.value.id] = new_v
                if self.exceptions and k.catches:
                    s2 = st.fork()
                    yield from k.exc(s2, None, c)
                continue
            self._emit(st, "call", csub, None, c, fi, depth, inlined=True)
            binding = self._bind_args(csub, c, targets, fi)
            # the caller's names of the objects handed over (attribute stores made under these names travel along)
            origins = {}
            orig_binding = self._bind_args(c, c, targets, fi)
            for p_, v_ in orig_binding.items():
                if isinstance(v_, (ast.Name, ast.Attribute)) and dotted(v_) and p_ in binding:
                    origins[p_] = dotted(v_)
            rest = calls[i:]
            for p in self._explore_func(targets, binding, st, depth + 1, origins):
                s2 = p  # a _State carrying outcome information in attributes below
                out, val, node = p._outcome  # type: ignore[attr-defined]
                if out == "raise":
                    yield from k.exc(s2, val, node)
                    continue
                self._tmp += 1
                tmp = f"⟨ret{self._tmp}⟩"
                s2.store[tmp] = val if val is not None else ast.Constant(value=None)
                s2.repl[id(c)] = tmp
                yield from self._calls_from(rest, 0, s2, fi, depth, k, then)
            return
        yield from then(st)

    def _stipulated(self, c: ast.Call, csub: ast.AST) -> bool:
        fn = (c.func.attr if isinstance(c.func, ast.Attribute) else (dotted(c.func) or "")) + "()"
        if fn in self.env or unparse(c) in self.facts or unparse(csub) in self.facts:
            return True
        if self.oracle is not None:
            try:
                return self.oracle(csub) is not None or self.oracle(c) is not None
            except Exception:  # noqa: BLE001
                return False
        return False

    def _bindable(self, call: ast.Call, callee: FuncInfo) -> bool:
        a = callee.node.args
        if callee.is_abstract or callee.is_property:
            return False
        via_super = isinstance(call.func, ast.Attribute) and isinstance(call.func.value, ast.Call) and isinstance(call.func.value.func, ast.Name) and call.func.value.func.id == "super"
        if callee.cls is not None and not via_super and any(callee.name in sub.methods for sub in self.prog.subclasses(callee.cls)):
            return False  # an override may be the real target (super().m(…) names its target exactly)
        body = [x for x in callee.node.body if not (isinstance(x, ast.Expr) and isinstance(x.value, ast.Constant))]
        if not body or all(isinstance(x, ast.Pass) or (isinstance(x, ast.Raise) and "NotImplemented" in unparse(x)) for x in body):
            return False  # interface stub
        if any(isinstance(x, ast.Starred) for x in call.args) or any(kw.arg is None for kw in call.keywords):
            return False
        if a.vararg:
            return False
        if a.kwarg:
            # surplus keywords are collected in a dictionary literal bound to the ** parameter
            named = {x.arg for x in [*a.posonlyargs, *a.args, *a.kwonlyargs]}
            if any(kw.arg is None for kw in call.keywords):
                return False
            _ = named
        if any(isinstance(n, (ast.Yield, ast.YieldFrom)) for n in ast.walk(callee.node)):
            return False  # generators are not inlined: their body runs lazily
        return True

    def _bind_args(self, csub: ast.Call, call: ast.Call, callee: FuncInfo, caller: FuncInfo) -> dict:
        a = callee.node.args
        params = [x.arg for x in [*a.posonlyargs, *a.args]]
        binding: dict = {}
        args = list(csub.args)
        is_method = callee.cls is not None and not callee.is_staticmethod
        if is_method and params:
            recv = csub.func.value if isinstance(csub.func, ast.Attribute) else None
            first = params[0]
            called_on_class = False
            if recv is not None and callee.is_classmethod:
                binding[first] = recv
            elif recv is not None:
                # Class.method(obj, …) passes the receiver explicitly
                rd = dotted(recv) or ""
                if rd and rd.split(".")[-1][:1].isupper() and len(args) >= 1 and not callee.is_classmethod and rd.split(".")[-1] in {c.name for c in self.prog.find_classes(rd.split(".")[-1])}:
                    called_on_class = True
                elif isinstance(recv, ast.Call) and isinstance(recv.func, ast.Name) and recv.func.id == "super" and not recv.args and caller.param_names():
                    binding[first] = ast.Name(id=caller.param_names()[0], ctx=ast.Load())  # super().m(…): the caller's own object
                else:
                    binding[first] = recv
            if not called_on_class:
                params = params[1:]
        for p, v in zip(params, args):
            binding[p] = v
        named = {x.arg for x in [*a.posonlyargs, *a.args, *a.kwonlyargs]}
        extra = []
        for kw in csub.keywords:
            if a.kwarg is not None and kw.arg is not None and kw.arg not in named:
                extra.append(kw)
            else:
                binding[kw.arg] = kw.value
        if a.kwarg is not None:
            binding[a.kwarg.arg] = ast.Dict(keys=[ast.Constant(value=kw.arg) for kw in extra], values=[kw.value for kw in extra])
        # defaults
        pos = [x.arg for x in [*a.posonlyargs, *a.args]]
        for p, d in zip(pos[len(pos) - len(a.defaults) :], a.defaults):
            binding.setdefault(p, d)
        for p, d in zip(a.kwonlyargs, a.kw_defaults):
            if d is not None:
                binding.setdefault(p.arg, d)
        return binding

    # ------------------------------------------------------------------ functions
    def _explore_func(self, fi: FuncInfo, binding: dict, st0: _State, depth: int, origins: dict | None = None):
        """yields _State objects with attribute _outcome = (kind, value, node); the store of the
        yielded state is the *caller's* store again (callee locals are dropped)"""
        outer_store = st0.store
        outer_repl = st0.repl
        st = st0.fork()
        # a function defined inside a function that is being explored sees that function's locals (closure)
        st.store = {**outer_store, **binding} if fi.parent is not None and fi.parent in self._stack else dict(binding)
        # attributes of an object passed by name (typically self) that the caller has assigned on this path
        passed = {p_: dotted(v_) for p_, v_ in binding.items() if isinstance(v_, (ast.Name, ast.Attribute)) and dotted(v_)}
        passed.update(origins or {})
        for p_, dv in passed.items():
            for k_, val in outer_store.items():
                if k_.startswith(dv + "."):
                    st.store[p_ + k_[len(dv) :]] = val
        st.repl = {}
        init_store = dict(st.store)  # (the state object itself is updated in place while the callee is explored)
        self._stack.append(fi)
        try:
            results = []

            def fin(kind):
                def f(s, val=None, node=None):
                    s._outcome = (kind, val, node)  # type: ignore[attr-defined]
                    results.append(s)
                    return iter(())

                return f

            k = _Kont(normal=lambda s: fin("return")(s, None, None), ret=fin("return"), exc=fin("raise"))
            for _ in self._block(fi.node.body, 0, st, fi, depth, k):
                pass
        finally:
            self._stack.pop()
        for s in results:
            inner = s.store
            s.store = dict(outer_store)
            # attribute stores made by the callee on objects it was handed are visible to the caller afterwards
            for p_, dv in passed.items():
                for k_, val in inner.items():
                    if k_.startswith(p_ + ".") and (init_store.get(k_) is not val):
                        s.store[dv + k_[len(p_) :]] = val
            s.repl = dict(outer_repl)
            s.loops = st0.loops
            s.handler = st0.handler
            yield s

    def run(self, fi: FuncInfo, binding: dict | None = None) -> list[SymPath]:
        st = _State()
        st.store = dict(binding or {})
        out: list[SymPath] = []

        def done(kind):
            def f(s, val=None, node=None):
                self._count += 1
                if self._count > self.max_paths:
                    raise TooManyPaths(f"{fi.qualname}: more than {self.max_paths} paths")
                out.append(SymPath(s.store, s.conds, s.events, kind, val, node))
                return iter(())

            return f

        k = _Kont(normal=lambda s: done("fall")(s), ret=done("return"), exc=done("raise"))
        self._stack.append(fi)
        try:
            for _ in self._block(fi.node.body, 0, st, fi, 0, k):
                pass
        finally:
            self._stack.pop()
        return out

    # ------------------------------------------------------------------ statements
    def _block(self, stmts, i, st: _State, fi, depth, k: _Kont):
        if i >= len(stmts):
            yield from k.normal(st)
            return
        s = stmts[i]

        def nxt(s2):
            return self._block(stmts, i + 1, s2, fi, depth, k)

        yield from self._stmt(s, st, fi, depth, k, nxt)

    def _stmt(self, s, st, fi, depth, k, nxt):
        if isinstance(s, (ast.FunctionDef, ast.AsyncFunctionDef)):
            ev = self._emit(st, "def", None, None, s, fi, depth)
            ev.store = dict(st.store)
            st.store.pop(s.name, None)
            yield from nxt(st)
            return
        if isinstance(s, (ast.ClassDef, ast.Pass, ast.Import, ast.ImportFrom, ast.Global, ast.Nonlocal)):
            yield from nxt(st)
            return
        if isinstance(s, ast.Expr):
            v = s.value
            if isinstance(v, ast.Constant):
                yield from nxt(st)
                return

            def then(s2):
                self._walrus(v, s2, fi, depth)
                if isinstance(v, (ast.Yield, ast.YieldFrom)):
                    self._emit(s2, "yield", self.subst(v.value, s2) if v.value is not None else None, None, s, fi, depth)
                return nxt(s2)

            yield from self._calls([v], st, fi, depth, k, then)
            return
        if isinstance(s, (ast.Assign, ast.AnnAssign)):
            value = s.value
            targets = s.targets if isinstance(s, ast.Assign) else [s.target]
            if value is None:
                yield from nxt(st)
                return
            if self.fork_ifexp and isinstance(value, ast.IfExp):
                yield from self._ifexp_assign(s, targets, value, st, fi, depth, k, nxt)
                return

            def then(s2):
                self._walrus(value, s2, fi, depth)
                inner = value.value if isinstance(value, (ast.Yield, ast.YieldFrom, ast.Await)) and value.value is not None else value
                if isinstance(value, (ast.Yield, ast.YieldFrom)):
                    self._emit(s2, "yield", self.subst(inner, s2), None, s, fi, depth)
                vsub = self.subst(inner, s2)
                for t in targets:
                    self._bind(t, vsub, s2, fi, depth, s)
                return nxt(s2)

            tcalls = [t for t in targets if not isinstance(t, ast.Name)]
            yield from self._calls([value, *tcalls], st, fi, depth, k, then)
            return
        if isinstance(s, ast.AugAssign):

            def then(s2):
                cur = self.subst(_as_load(s.target), s2)
                v = ast.BinOp(left=cur, op=s.op, right=self.subst(s.value, s2))
                self._bind(s.target, v, s2, fi, depth, s)
                return nxt(s2)

            yield from self._calls([s.value], st, fi, depth, k, then)
            return
        if isinstance(s, ast.Return):
            if self.fork_ifexp and isinstance(s.value, ast.IfExp):
                yield from self._stmt(_if_of(s, s.value, lambda arm: ast.Return(value=arm)), st, fi, depth, k, nxt)
                return

            def then(s2):
                if s.value is not None:
                    self._walrus(s.value, s2, fi, depth)
                return k.ret(s2, self.subst(s.value, s2) if s.value is not None else None, s)

            yield from self._calls([s.value], st, fi, depth, k, then)
            return
        if isinstance(s, ast.Raise):

            def then(s2):
                return k.exc(s2, self.subst(s.exc, s2) if s.exc is not None else None, s)

            yield from self._calls([s.exc], st, fi, depth, k, then)
            return
        if isinstance(s, ast.Assert):

            def then(s2):
                t = self.subst(s.test, s2)
                d = self.decide(t, s2)
                outs = []
                if d is not False:
                    s3 = s2.fork() if (d is None and k.catches) else s2
                    if d is None:
                        self._assume(t, True, s3, s)
                    self._emit(s3, "assert", t, None, s, fi, depth)
                    outs.append(nxt(s3))
                if d is not True and k.catches:
                    s4 = s2.fork() if d is None else s2
                    if d is None:
                        self._assume(t, False, s4, s)
                    outs.append(k.exc(s4, ast.Call(func=ast.Name(id="AssertionError", ctx=ast.Load()), args=[], keywords=[]), s))
                elif d is False:
                    outs.append(k.exc(s2, ast.Call(func=ast.Name(id="AssertionError", ctx=ast.Load()), args=[], keywords=[]), s))
                for o in outs:
                    yield from o

            yield from self._calls([s.test], st, fi, depth, k, then)
            return
        if isinstance(s, ast.Delete):
            for t in s.targets:
                if isinstance(t, ast.Name):
                    st.store.pop(t.id, None)
                else:
                    self._emit(st, "del", self.subst(_as_load(t), st), None, s, fi, depth)
            yield from nxt(st)
            return
        if isinstance(s, ast.If):
            txt = unparse(s.test)
            if any(w in txt for w in self.skip_tests):
                yield from nxt(st)
                return

            def then(s2):
                self._walrus(s.test, s2, fi, depth)
                t = self.subst(s.test, s2)
                d = self.decide(t, s2)
                for pol, body in ((True, s.body), (False, s.orelse)):
                    if d is not None and d != pol:
                        continue
                    s3 = s2.fork() if d is None else s2
                    if d is None:
                        self._assume(t, pol, s3, s)
                    yield from self._block(body, 0, s3, fi, depth, _Kont(normal=nxt, ret=k.ret, exc=k.exc, brk=k.brk, cont=k.cont, catches=k.catches))

            yield from self._calls([s.test], st, fi, depth, k, then)
            return
        if isinstance(s, (ast.For, ast.AsyncFor)):
            yield from self._for(s, st, fi, depth, k, nxt)
            return
        if isinstance(s, ast.While):
            yield from self._while(s, st, fi, depth, k, nxt)
            return
        if isinstance(s, (ast.With, ast.AsyncWith)):
            yield from self._with(s, 0, st, fi, depth, k, nxt)
            return
        if isinstance(s, ast.Try):
            yield from self._try(s, st, fi, depth, k, nxt)
            return
        if isinstance(s, ast.Break):
            yield from (k.brk or nxt)(st)
            return
        if isinstance(s, ast.Continue):
            yield from (k.cont or nxt)(st)
            return
        yield from nxt(st)  # Match etc.: not used by the package

    def _ifexp_assign(self, s, targets, value, st, fi, depth, k, nxt):
        yield from self._stmt(_if_of(s, value, lambda arm: ast.Assign(targets=targets, value=arm)), st, fi, depth, k, nxt)

    # ------------------------------------------------------------------ loops
    def _havoc(self, st: _State, names) -> None:
        for n in names:
            if n in st.store:
                v = st.store[n]
                if isinstance(v, ast.Call) and isinstance(v.func, ast.Name) and v.func.id == LOOP:
                    continue
                st.store[n] = ast.Call(func=ast.Name(id=LOOP, ctx=ast.Load()), args=[v], keywords=[])

    def _for(self, s, st, fi, depth, k, nxt):
        bound = _bound_names(s.body)

        def after(s2, run_else=True):
            s2.loops = s2.loops[:-1] if s2.loops and s2.loops[-1] == id(s) else s2.loops
            self._havoc(s2, bound)
            if run_else and s.orelse:
                return self._block(s.orelse, 0, s2, fi, depth, _Kont(normal=nxt, ret=k.ret, exc=k.exc, brk=k.brk, cont=k.cont, catches=k.catches))
            return nxt(s2)

        def unroll(items, i, s2):
            if i >= len(items):
                if s.orelse:
                    return self._block(s.orelse, 0, s2, fi, depth, _Kont(normal=nxt, ret=k.ret, exc=k.exc, brk=k.brk, cont=k.cont, catches=k.catches))
                return nxt(s2)
            self._bind(s.target, items[i], s2, fi, depth, s)
            step = lambda x: unroll(items, i + 1, x)  # noqa: E731
            return self._block(s.body, 0, s2, fi, depth, _Kont(normal=step, ret=k.ret, exc=k.exc, brk=nxt, cont=step, catches=k.catches))

        def then(s2):
            it = self.subst(s.iter, s2)
            items = self.literal_items(it, fi)
            if items is not None and len(items) <= 8:
                yield from unroll(items, 0, s2)
                return
            if self.zero_iter:
                s0 = s2.fork()
                yield from after(s0)
            elem = ast.Call(func=ast.Name(id=ELEM, ctx=ast.Load()), args=[it], keywords=[])
            self._bind(s.target, elem, s2, fi, depth, s)
            s2.loops = s2.loops + (id(s),)
            kb = _Kont(normal=lambda x: after(x), ret=k.ret, exc=k.exc, brk=lambda x: after(x, False), cont=lambda x: after(x), catches=k.catches)
            yield from self._block(s.body, 0, s2, fi, depth, kb)

        yield from self._calls([s.iter], st, fi, depth, k, then)

    def _while(self, s, st, fi, depth, k, nxt):
        bound = _bound_names(s.body) + _bound_names([ast.Expr(value=s.test)])

        def after(s2, run_else=True):
            s2.loops = s2.loops[:-1] if s2.loops and s2.loops[-1] == id(s) else s2.loops
            self._havoc(s2, bound)
            if run_else and s.orelse:
                return self._block(s.orelse, 0, s2, fi, depth, _Kont(normal=nxt, ret=k.ret, exc=k.exc, brk=k.brk, cont=k.cont, catches=k.catches))
            return nxt(s2)

        def then(s2):
            self._walrus(s.test, s2, fi, depth)
            t = self.subst(s.test, s2)
            d = self.decide(t, s2)
            if d is False:
                yield from after(s2)
                return
            if self.zero_iter and d is None:
                s0 = s2.fork()
                self._assume(t, False, s0, s)
                yield from after(s0)
            if d is None:
                self._assume(t, True, s2, s)
                # the test is re-evaluated after the body: do not keep it as a path fact beyond the first iteration
                s2.known.pop(unparse(t), None)
            s2.loops = s2.loops + (id(s),)
            kb = _Kont(normal=lambda x: after(x), ret=k.ret, exc=k.exc, brk=lambda x: after(x, False), cont=lambda x: after(x), catches=k.catches)
            yield from self._block(s.body, 0, s2, fi, depth, kb)

        yield from self._calls([s.test], st, fi, depth, k, then)

    # ------------------------------------------------------------------ with / try
    def _with(self, s, idx, st, fi, depth, k, nxt):
        if idx >= len(s.items):

            def leave(cont, exc=False):
                def f(s2, *a):
                    for it in reversed(s.items):
                        self._emit(s2, "with_exit", self.subst(it.context_expr, st), ast.Constant(value=exc), s, fi, depth)
                    return cont(s2, *a)

                return f

            kb = _Kont(
                normal=leave(nxt),
                ret=leave(k.ret),
                exc=leave(k.exc, True),
                brk=leave(k.brk) if k.brk else None,
                cont=leave(k.cont) if k.cont else None,
                catches=True,
            )
            yield from self._block(s.body, 0, st, fi, depth, kb)
            return
        item = s.items[idx]

        def then(s2):
            ctx = self.subst(item.context_expr, s2)
            self._emit(s2, "with_enter", ctx, None, s, fi, depth)
            if item.optional_vars is not None:
                self._bind(item.optional_vars, ast.Call(func=ast.Name(id=ENTER, ctx=ast.Load()), args=[ctx], keywords=[]), s2, fi, depth, s)
            return self._with(s, idx + 1, s2, fi, depth, k, nxt)

        yield from self._calls([item.context_expr], st, fi, depth, k, then)

    @staticmethod
    def _handler_types(h: ast.ExceptHandler) -> list[str]:
        if h.type is None:
            return ["BaseException"]
        ts = h.type.elts if isinstance(h.type, ast.Tuple) else [h.type]
        return [(dotted(t) or unparse(t)).split(".")[-1] for t in ts]

    def _try(self, s, st, fi, depth, k, nxt):
        final = s.finalbody

        def with_final(cont):
            if not final:
                return cont

            def f(s2, *a):
                return self._block(final, 0, s2, fi, depth, _Kont(normal=lambda s3: cont(s3, *a), ret=k.ret, exc=k.exc, brk=k.brk, cont=k.cont, catches=k.catches))

            return f

        k_out = _Kont(
            normal=with_final(nxt),
            ret=with_final(k.ret),
            exc=with_final(k.exc),
            brk=with_final(k.brk) if k.brk else None,
            cont=with_final(k.cont) if k.cont else None,
            catches=k.catches or bool(final),
        )
        bound = _bound_names(s.body)

        def on_exc(s2, exc, node):
            # which handlers may take it
            name = None
            if exc is not None:
                f = exc.func if isinstance(exc, ast.Call) else exc
                name = (dotted(f) or unparse(f)).split(".")[-1]
            taken = False
            for h in s.handlers:
                hts = self._handler_types(h)
                match = None
                if name is None:
                    match = None  # unknown type: may match
                elif name in hts or "BaseException" in hts or ("Exception" in hts and name not in ("KeyboardInterrupt", "SystemExit", "GeneratorExit")):
                    match = True
                else:
                    match = self._subclass_of(name, hts)
                if match is False:
                    continue
                s3 = s2.fork()
                s3.handler = True
                if h.name:
                    s3.store[h.name] = exc if exc is not None else ast.Call(func=ast.Name(id=EXC, ctx=ast.Load()), args=[ast.Constant(value="|".join(hts))], keywords=[])
                s3.conds.append((ast.Call(func=ast.Name(id=EXC, ctx=ast.Load()), args=[ast.Constant(value="|".join(hts))], keywords=[]), True, node if node is not None else h))

                def leave(cont):
                    def f(s4, *a):
                        s4.handler = s2.handler
                        return cont(s4, *a)

                    return f

                kh = _Kont(normal=leave(k_out.normal), ret=leave(k_out.ret), exc=leave(k_out.exc), brk=leave(k_out.brk) if k_out.brk else None, cont=leave(k_out.cont) if k_out.cont else None, catches=k_out.catches)
                yield from self._block(h.body, 0, s3, fi, depth, kh)
                if match is True:
                    taken = True
                    break
            if not taken:
                yield from k_out.exc(s2, exc, node)

        def after_body(s2):
            if s.orelse:
                return self._block(s.orelse, 0, s2, fi, depth, k_out)
            return k_out.normal(s2)

        kb = _Kont(normal=after_body, ret=k_out.ret, exc=on_exc if s.handlers else k_out.exc, brk=k_out.brk, cont=k_out.cont, catches=True)
        # implicit exceptions that the handlers of this block are written for: a failing lookup (KeyError /
        # IndexError on a subscript or .pop()), an exhausted iterator (StopIteration on next()), a missing attribute
        caught = {t for h in s.handlers for t in self._handler_types(h)}
        lookup = caught & {"KeyError", "IndexError", "LookupError"}
        stop = "StopIteration" in caught
        oserr = caught & {"FileNotFoundError", "FileExistsError", "OSError", "IOError", "PermissionError", "NotADirectoryError", "IsADirectoryError"}

        def may_raise(stmt) -> str | None:
            for x in ast.walk(stmt):
                if isinstance(x, (ast.FunctionDef, ast.AsyncFunctionDef, ast.Lambda)):
                    continue
                if lookup and isinstance(x, ast.Subscript) and isinstance(x.ctx, ast.Load) and not isinstance(x.slice, ast.Slice):
                    return sorted(lookup)[0]
                if lookup and isinstance(x, ast.Call) and isinstance(x.func, ast.Attribute) and x.func.attr in ("pop", "remove", "index") :
                    return sorted(lookup)[0]
                if stop and isinstance(x, ast.Call) and isinstance(x.func, ast.Name) and x.func.id == "next" and len(x.args) == 1:
                    return "StopIteration"
                if oserr and isinstance(x, ast.Call):
                    return sorted(oserr)[0]  # any call may touch the file system
            return None

        def run_body(i, s2):
            if i >= len(s.body):
                return after_body(s2)

            def gen():
                stmt_i = s.body[i]
                probe = stmt_i
                if isinstance(stmt_i, (ast.With, ast.AsyncWith)):
                    probe = ast.Expr(value=ast.Tuple(elts=[it.context_expr for it in stmt_i.items], ctx=ast.Load()))
                elif isinstance(stmt_i, (ast.If, ast.While)):
                    probe = ast.Expr(value=stmt_i.test)
                elif isinstance(stmt_i, (ast.For, ast.AsyncFor)):
                    probe = ast.Expr(value=stmt_i.iter)
                elif not isinstance(stmt_i, (ast.Assign, ast.AnnAssign, ast.AugAssign, ast.Expr, ast.Return)):
                    probe = None
                exc_name = may_raise(probe) if s.handlers and probe is not None else None
                if exc_name is not None:
                    s_exc = s2.fork()
                    yield from on_exc(s_exc, ast.Call(func=ast.Name(id=exc_name, ctx=ast.Load()), args=[], keywords=[]), s.body[i])
                yield from self._stmt(s.body[i], s2, fi, depth, kb, lambda s3: run_body(i + 1, s3))

            return gen()

        yield from run_body(0, st)

    def _subclass_of(self, name: str, bases: list[str]):
        """True/False when the package's class table decides it, None otherwise"""
        builtin = {
            "KeyError": ["LookupError", "Exception"],
            "IndexError": ["LookupError", "Exception"],
            "FileNotFoundError": ["OSError", "Exception"],
            "FileExistsError": ["OSError", "Exception"],
            "AssertionError": ["Exception"],
            "ValueError": ["Exception"],
            "TypeError": ["Exception"],
            "RuntimeError": ["Exception"],
            "AttributeError": ["Exception"],
            "StopIteration": ["Exception"],
            "EOFError": ["Exception"],
            "NotImplementedError": ["RuntimeError", "Exception"],
        }
        if name in builtin:
            return any(b in builtin[name] for b in bases)
        cis = self.prog.find_classes(name)
        if len(cis) == 1:
            names = set()
            for c in self.prog.mro(cis[0]):
                names.add(c.name if hasattr(c, "name") else str(c).split(".")[-1])
            for b in cis[0].bases:
                if isinstance(b, str):
                    names.add(b.split(".")[-1])
                    names.update(builtin.get(b.split(".")[-1], []))
            return any(b in names for b in bases)
        return None


def _if_of(stmt: ast.stmt, value: ast.IfExp, make) -> ast.If:
    """`x = a if c else b` / `return a if c else b` as the equivalent if statement"""
    arms = []
    for arm in (value.body, value.orelse):
        st = make(arm)
        ast.copy_location(st, stmt)
        arms.append(st)
    node = ast.If(test=value.test, body=[arms[0]], orelse=[arms[1]])
    ast.copy_location(node, stmt)
    return node


def _const_dict(e) -> bool:
    return isinstance(e, ast.Dict) and all(isinstance(kk, ast.Constant) for kk in e.keys)


def _as_load(t: ast.AST) -> ast.AST:
    t2 = copy.deepcopy(t)
    for n in ast.walk(t2):
        if hasattr(n, "ctx"):
            n.ctx = ast.Load()
    return t2


def explore(prog: Program, fi: FuncInfo, **kw) -> list[SymPath]:
    binding = kw.pop("binding", None)
    return Explorer(prog, **kw).run(fi, binding)


def inline_package(*names: str):
    """inline policy: callees with one of the given names (empty: every resolvable package function)"""

    def pol(caller: FuncInfo, call: ast.Call, callee: FuncInfo) -> bool:
        return not names or callee.name in names

    return pol


def inline_private_helpers(prog: Program, public: set | None = None):
    """inline policy used by most rules: a callee is looked through when it lives in the same module
    as the caller (extracted helpers end up there) and is not one of the rule's named anchors"""
    public = public or set()

    def pol(caller: FuncInfo, call: ast.Call, callee: FuncInfo) -> bool:
        if callee.name in public or callee.is_property:
            return False
        return callee.module is caller.module or _small_shared_helper(callee)

    return pol


def _small_shared_helper(callee: FuncInfo) -> bool:
    """a short loop-free module-level function of another module of the package (a check / report helper that
    several modules share, e.g. after a move into a utilities module) is looked through like a local helper"""
    if callee.cls is not None or callee.parent is not None:
        return False
    body = [st for st in callee.node.body if not (isinstance(st, ast.Expr) and isinstance(st.value, ast.Constant))]
    if len(body) > 6:
        return False
    for x in ast.walk(callee.node):
        if isinstance(x, (ast.For, ast.While, ast.Yield, ast.YieldFrom, ast.With, ast.Try, ast.FunctionDef, ast.Lambda)) and x is not callee.node:
            return False
    return True


def mentions(expr: ast.AST | None, pred) -> bool:
    return expr is not None and any(pred(n) for n in ast.walk(expr))


def calls_named(expr: ast.AST | None, name: str) -> list[ast.Call]:
    if expr is None:
        return []
    return [n for n in ast.walk(expr) if isinstance(n, ast.Call) and (dotted(n.func) or unparse(n.func)).split(".")[-1] == name]


def strip_wrappers(expr: ast.AST, names=(LOOP,)) -> ast.AST:
    while isinstance(expr, ast.Call) and isinstance(expr.func, ast.Name) and expr.func.id in names and expr.args:
        expr = expr.args[0]
    return expr


def raising_guards(paths: list[SymPath], p: SymPath) -> list[tuple[ast.AST, bool, ast.AST]]:
    """the tests on path `p` whose other outcome always ends in a raise: (test, polarity on p, node).
    A test qualifies when at least one explored path shares p's decisions up to that test, takes
    the other branch there, and every such path raises."""
    out = []
    texts = [(unparse(t), pol) for t, pol, _ in p.conds]
    for i, (t, pol, node) in enumerate(p.conds):
        sib = []
        for q in paths:
            if q is p or len(q.conds) <= i:
                continue
            qt = [(unparse(a), b) for a, b, _ in q.conds[: i + 1]]
            if qt[:i] == texts[:i] and qt[i] == (texts[i][0], not pol):
                sib.append(q)
        if sib and all(q.outcome == "raise" for q in sib):
            out.append((t, pol, node))
    return out


def explore_with_nested(prog: Program, fi: FuncInfo, _depth: int = 0, **kw) -> list[tuple[FuncInfo, list[SymPath]]]:
    """paths of fi and of the functions defined inside it (explored with the closure environment
    that holds where they are defined)"""
    binding = kw.pop("binding", None)
    paths = Explorer(prog, **kw).run(fi, binding)
    out = [(fi, paths)]
    seen = set()
    if _depth < 2:
        for p in paths:
            for ev in p.events:
                if ev.kind == "def" and id(ev.node) not in seen:
                    seen.add(id(ev.node))
                    inner = next((g for g in fi.module.all_funcs if g.node is ev.node), None)
                    if inner is not None:
                        b = {k: v for k, v in (ev.store or {}).items() if k not in inner.param_names()}
                        out.extend(explore_with_nested(prog, inner, _depth + 1, binding=b, **kw))
    return out


def outcomes_under(paths: list[SymPath], env: dict) -> set:
    """outcomes ('return' / 'raise' / 'fall') of the paths whose decisions are consistent with a concrete
    environment (finite-domain folding of the path conditions with effects.ceval; a decision that does not fold is
    taken as consistent)"""
    out = set()
    for p in paths:
        ok = True
        for t, pol in p.literals():
            try:
                v = bool(ceval(t, env))
            except Exception:  # noqa: BLE001
                continue
            if v != pol:
                ok = False
                break
        if ok:
            out.add("return" if p.outcome == "fall" else p.outcome)
    return out
