"""C12 — patch metadata describe the patch, and patch i belongs to centre i (structural part).

R1 the radius is measured against the centre that is stored; count and weight sum come from the same data.
R2 centres are paired with patches by id or behind a raising guard (= C09.R6).
R3 id-set and centre-alignment guards dominate the linkage computation; the alignment guard raises
   on a distance/radius comparison with tolerance <= 1 for every other catalog.
R4 catalog-level getters enumerate patches in one (sorted) order.
"""

from __future__ import annotations

import ast

from ..cfg import cfg_of
from ..dataflow import all_def_values, depends_on
from ..effects import Unknown, ceval
from ..model import AnalysisError, dotted, norm_stmt, unparse, walk_no_nested
from . import c09
from .common import QUICK, branch_nodes_of, calls_in, kwarg, raise_dominated_by

EXPLANATION = (
    "Static def-use and dominance analysis on /repo's current source. R1: in Metadata.compute the object whose "
    "distance maximum becomes `radius` must be the very attribute stored as `center` on every path, the count is "
    "len() and the weight sum sum() of the arguments, and Patch.__init__ derives coordinates and weights from one "
    "loaded chunk. R2: the centre argument of every parallel Patch construction is keyed by id or guarded. R3: in the "
    "linkage constructor the raising id-set comparison and the call of the alignment check dominate the loop that "
    "computes the links, and the alignment check iterates over every other catalog and raises on distance/radius > "
    "rtol with rtol <= 1. Numerical containment of records in the radius is NOT decided."
)
ASSUMPTIONS = [
    "AngularCoordinates.distance(other).max() is the largest separation of any record from `other`",
]


def rule_r1(prog, res) -> None:
    """radius measured against the stored centre; count and weight sum from the same data"""
    from .. import symx

    comp = prog.func("Metadata.compute")
    res.touch(comp)
    params = comp.param_names()
    coords_p = params[1]
    w_p = next((q for q in params if "weight" in q), None)
    c_p = next((q for q in params if "cent" in q), None)
    if w_p is None or c_p is None:
        raise AnalysisError("C12.R1: Metadata.compute no longer takes weights / center")
    pol = symx.inline_private_helpers(prog)
    n_paths = 0
    problems = {}
    for has_w in (True, False):
        for has_c in (True, False):
            env = {w_p: "SOME" if has_w else None, c_p: "SOME" if has_c else None}
            paths = [p for p in symx.explore(prog, comp, env=env, inline=pol) if p.outcome == "return"]
            if not paths:
                raise AnalysisError(f"C12.R1: Metadata.compute has no returning path for {env}")
            for p in paths:
                n_paths += 1
                inst = sorted({k.rsplit(".", 1)[0] for k in p.store if k.endswith(".radius")})
                if len(inst) != 1:
                    raise AnalysisError("C12.R1: the instance built by Metadata.compute (attribute stores radius / center) was not recognised")
                new = inst[0]
                radius, centre = p.store.get(f"{new}.radius"), p.store.get(f"{new}.center")
                nrec, sumw = p.store.get(f"{new}.num_records"), p.store.get(f"{new}.sum_weights")
                if None in (radius, centre, nrec, sumw):
                    raise AnalysisError("C12.R1: Metadata.compute does not set all of radius / center / num_records / sum_weights on a returning path")
                # radius = max distance of the records to the centre that is stored
                dist = [c for c in ast.walk(radius) if isinstance(c, ast.Call) and isinstance(c.func, ast.Attribute) and c.func.attr == "distance"]
                okr = (
                    isinstance(radius, ast.Call) and isinstance(radius.func, ast.Attribute) and radius.func.attr == "max" and len(dist) == 1 and dist[0].args
                    and unparse(dist[0].args[0]) == unparse(centre) and unparse(dist[0].func.value) == coords_p
                )
                if not okr:
                    problems.setdefault("radius-reference", (p, f"the stored radius `{unparse(radius)[:70]}` is not the maximum distance of the records from the stored centre `{unparse(centre)[:40]}`: records can lie outside the stored radius"))
                tc = unparse(centre).replace(" ", "")
                okc = tc in (f"{c_p}.copy()", c_p) if has_c else (tc.startswith(f"{coords_p}.mean(") and symx.mentions(centre, lambda y: isinstance(y, ast.Name) and y.id == w_p))
                if not okc:
                    problems.setdefault("center-source", (p, f"the stored centre `{tc[:60]}` is neither the given centre nor the weighted mean of the records ({'centre given' if has_c else 'no centre given'})"))
                tn = unparse(nrec).replace(" ", "")
                ts = unparse(sumw).replace(" ", "")
                ok_n = tn == f"len({coords_p})"
                if has_w:
                    inner = [c for c in ast.walk(sumw) if isinstance(c, ast.Call) and (dotted(c.func) or "").split(".")[-1] in ("sum", "nansum")]
                    ok_w = bool(inner) and not any(isinstance(y, ast.BinOp) for y in ast.walk(sumw)) and any(
                        any(isinstance(a_, ast.Name) and a_.id == w_p for a_ in c.args) or (isinstance(c.func, ast.Attribute) and isinstance(c.func.value, ast.Name) and c.func.value.id == w_p) for c in inner
                    )
                else:
                    ok_w = ts in (f"float(len({coords_p}))", f"len({coords_p})")
                if not (ok_n and ok_w):
                    problems.setdefault("count-weight-source", (p, f"num_records = `{tn[:40]}`, sum_weights = `{ts[:50]}` ({'weights given' if has_w else 'no weights'}) are not len() / sum() of the patch's own records"))
    for key in ("radius-reference", "center-source", "count-weight-source"):
        if key in problems:
            p, msg = problems[key]
            res.violation("C12.R1", comp, p.node or comp.node, msg, key_extra=key)
    if "radius-reference" not in problems:
        res.ok("C12.R1", res.site(comp, "radius"), f"radius = max distance of {coords_p} to the stored centre on all {n_paths} paths")
    if "center-source" not in problems:
        res.ok("C12.R1", res.site(comp, "center"), "centre is the given centre or the weighted mean of the records")
    if "count-weight-source" not in problems:
        res.ok("C12.R1", res.site(comp, "count / weights"), "num_records = len(coords); sum_weights = sum(weights) or the count")
    pinit = prog.func("Patch.__init__")
    res.touch(pinit)
    cparam = next((q for q in pinit.param_names() if "cent" in q), None)
    ipaths = symx.explore(prog, pinit, inline=symx.inline_private_helpers(prog, public={"compute", "read_patch_data", "from_file", "to_file"}), exceptions=False)
    calls = [(p, ev) for p in ipaths for ev in p.calls("compute") if any(t.name == "compute" for t in prog.resolve_call(ev.fi, ev.node).funcs())]
    if not calls:
        raise AnalysisError("C12.R1: Patch.__init__ no longer calls Metadata.compute")
    bad = None
    for p, ev in calls:
        args = [ev.expr.args[0] if ev.expr.args else kwarg(ev.expr, "coords"), kwarg(ev.expr, "weights")]
        reads = set()
        for a_ in args:
            if a_ is None:
                continue
            for y in ast.walk(a_):
                if isinstance(y, ast.Call) and (dotted(y.func) or "").split(".")[-1] == "read_patch_data":
                    reads.add(unparse(y))
        cen_fw = kwarg(ev.expr, "center")
        one_chunk = len(reads) == 1 and "data_path" in next(iter(reads)) and all(a_ is None or symx.calls_named(a_, "read_patch_data") for a_ in args) and args[0] is not None
        if not (one_chunk and cen_fw is not None and isinstance(cen_fw, ast.Name) and cen_fw.id == cparam):
            bad = ev
    if bad is None:
        res.ok("C12.R1", res.site(pinit), "coordinates and weights come from one chunk read from this patch's data file; the given centre is forwarded")
    else:
        res.violation("C12.R1", pinit, bad.node, "metadata are not computed from one chunk of this patch's own data file with the given centre", key_extra="meta-inputs")


def rule_r2(prog, res) -> None:
    """centre <-> patch pairing (shared with C09.R6)"""
    sub = type(res)("C09", prog, res.tier)
    c09.rule_r6(prog, sub)
    for o in sub.obligations:
        o.rule = "C12.R2"
        res.obligations.append(o)
        res.count("C12.R2")
    for f in sub.findings:
        f.prop, f.rule = "C12", "C12.R2"
        f.key = f.key.replace("C09.R6", "C12.R2", 1)
        res.findings.append(f)
    res.functions_analysed |= sub.functions_analysed


def rule_r3(prog, res) -> None:
    """id-set and alignment guards dominate linkage"""
    from ..inline import inlined

    fc = inlined(prog, prog.func("PatchLinkage.from_catalogs"), desugar=True, keep={"get_max_angle", "check_patch_conistency"})
    res.touch(fc)
    cfg = cfg_of(fc.node)
    loops = [n for n in cfg.nodes if n.kind == "for" and "center" in unparse(n.ast.target)]
    if not loops:
        raise AnalysisError("C12.R3: link loop not found")
    idt = [t for t in cfg.nodes if t.kind == "test" and "keys()" in unparse(t.expr) and any(raise_dominated_by(cfg, b) for pol, b in branch_nodes_of(cfg, t).items() if pol)]
    # the same guard written as a loop over the other catalogs (`for cat in others: if ids differ: raise`) is decided on
    # the symbolic store: every returning path has passed "ids of an element of the others == ids of the first", the other outcome raises
    from .. import symx

    fc0 = prog.func("PatchLinkage.from_catalogs")
    vararg0 = fc0.node.args.vararg.arg if fc0.node.args.vararg else None
    spaths = symx.explore(prog, fc0, inline=symx.inline_private_helpers(prog, public={"get_max_angle", "check_patch_conistency"}), skip_tests=("logger",), env={"on_root()": True})

    def ids_compare(t):
        for x in ast.walk(t):
            if isinstance(x, ast.Compare) and len(x.ops) == 1 and isinstance(x.ops[0], (ast.NotEq, ast.Eq)):
                sides = [x.left, x.comparators[0]]
                if all(any(isinstance(y, ast.Call) and isinstance(y.func, ast.Attribute) and y.func.attr == "keys" for y in ast.walk(sd)) for sd in sides) and vararg0 and any(
                    symx.mentions(sd, lambda y: isinstance(y, ast.Name) and y.id == vararg0) for sd in sides
                ):
                    return x
        return None

    sym_guard = False
    rets_ = [p for p in spaths if p.outcome == "return"]
    if rets_ and all(any(ids_compare(t) is not None for t, pol_, _ in symx.raising_guards(spaths, p)) for p in rets_):
        sym_guard = True
    chk = [n for n in cfg.nodes if any(t.name == "check_patch_conistency" for c in n.calls() for t in prog.resolve_call(fc, c).funcs())]
    ok_ids = (idt and all(any(cfg.dominates(t, l) for t in idt) for l in loops)) or sym_guard
    if sym_guard and not idt:
        guard_t = next(ids_compare(t) for p in rets_ for t, pol_, _ in symx.raising_guards(spaths, p) if ids_compare(t) is not None)
        idt = [type("T", (), {"expr": ast.Call(func=ast.Name(id="any", ctx=ast.Load()), args=[guard_t], keywords=[]), "ast": fc.node})()]
    ok_chk = chk and all(any(cfg.dominates(c, l) for c in chk) for l in loops)
    if ok_ids:
        t = idt[0].expr
        cmp_ = [x for x in ast.walk(t) if isinstance(x, ast.Compare)]
        neq = cmp_ and isinstance(cmp_[0].ops[0], ast.NotEq) and ("any(" in unparse(t) or sym_guard)
        if neq:
            res.ok("C12.R3", res.site(fc, "id sets"), "raises if any catalog's patch-id set differs, before links are computed")
        else:
            res.violation("C12.R3", fc, idt[0].ast, "the patch-id comparison does not reject catalogs whose id sets differ", key_extra="id-set-compare")
    else:
        res.violation("C12.R3", fc, loops[0].ast, "links are computed without a dominating raising comparison of the catalogs' patch-id sets", key_extra="id-set-guard")
    if ok_chk:
        call = next(c for n in chk for c in n.calls() if any(t.name == "check_patch_conistency" for t in prog.resolve_call(fc, c).funcs()))
        # decided on the substituted arguments of the call (symbolic store): together they must range over every catalog
        first = [p for p in fc.param_names() if p.startswith("catalog")][0]
        rest = fc.node.args.vararg.arg

        def all_cov(e) -> bool:
            """a collection that holds every catalog: [first, *rest] (possibly sorted / copied)"""
            e = symx.strip_wrappers(e)
            if isinstance(e, (ast.List, ast.Tuple)):
                has_first = any(isinstance(x, ast.Name) and x.id == first for x in e.elts)
                has_rest = any(isinstance(x, ast.Starred) and isinstance(x.value, ast.Name) and x.value.id == rest for x in e.elts)
                return has_first and has_rest
            if isinstance(e, ast.Call) and (dotted(e.func) or "") in ("sorted", "list", "tuple", "reversed") and e.args:
                return all_cov(e.args[0])
            return False

        def arg_cov(a) -> set:
            star = isinstance(a, ast.Starred)
            e = symx.strip_wrappers(a.value if star else a)
            if isinstance(e, ast.Name):
                if e.id == first and not star:
                    return {"first"}
                if e.id == rest and star:
                    return {"rest"}
                return set()
            if star and all_cov(e):
                return {"first", "rest"}
            if isinstance(e, ast.Subscript) and all_cov(e.value):
                if not star and isinstance(e.slice, ast.Constant) and e.slice.value == 0:
                    return {"one"}
                if star and isinstance(e.slice, ast.Slice) and isinstance(e.slice.lower, ast.Constant) and e.slice.lower.value == 1 and e.slice.upper is None and e.slice.step is None:
                    return {"others"}
            return set()

        covers = True
        n_ev = 0
        for p in rets_:
            for ev in p.calls("check_patch_conistency"):
                n_ev += 1
                cov = set()
                for a in ev.expr.args:
                    cov |= arg_cov(a)
                if not ({"first", "rest"} <= cov or {"one", "others"} <= cov):
                    covers = False
        if n_ev == 0:
            covers = False
        if covers:
            res.ok("C12.R3", res.site(fc, "alignment"), "centre alignment of all catalogs is checked before links are computed")
        else:
            res.violation("C12.R3", fc, call, "the alignment check does not receive all catalogs", key_extra="alignment-args")
    else:
        res.violation("C12.R3", fc, loops[0].ast, "links are computed without a dominating centre-alignment check", key_extra="alignment-guard")
    cc = prog.func("check_patch_conistency")
    res.touch(cc)
    # decided on the symbolic store (closures looked through, any(… for cat in others) read as "for some other catalog"):
    # some raising path is taken exactly when, for an element of the *other catalogs, the centre distance divided by
    # the radius exceeds rtol
    from .. import symx

    vararg = cc.node.args.vararg.arg if cc.node.args.vararg else None
    rt = None
    a_ = cc.node.args
    for p_, d in zip(a_.kwonlyargs, a_.kw_defaults):
        if p_.arg == "rtol" and isinstance(d, ast.Constant):
            rt = d.value
    paths = symx.explore(prog, cc, inline=symx.inline_private_helpers(prog))
    raising = [p for p in paths if p.outcome == "raise"]
    good = False
    per_cat = False
    in_loop = False
    masked = None
    for p in raising:
        for t, pol in p.literals():
            if not pol:
                continue
            for cmp_ in [x for x in ast.walk(t) if isinstance(x, ast.Compare) and len(x.ops) == 1]:
                l = cmp_.left
                if not (isinstance(l, ast.BinOp) and isinstance(l.op, ast.Div)):
                    continue
                num_dist = [y for y in ast.walk(l.left) if isinstance(y, ast.Call) and isinstance(y.func, ast.Attribute) and y.func.attr == "distance"]
                den_rad = any(isinstance(y, ast.Call) and isinstance(y.func, ast.Attribute) and y.func.attr == "get_radii" for y in ast.walk(l.right))
                if not num_dist or not den_rad:
                    continue
                try:
                    far = ceval(cmp_, {unparse(l): 2.0, "rtol": 0.5})
                    near = ceval(cmp_, {unparse(l): 0.1, "rtol": 0.5})
                except Unknown:
                    continue
                if far and not near:
                    good = True
                # … for ALL patches: neither side is restricted to a selection (a mask that leaves out, say, patches of zero
                # radius exempts exactly the patches whose every displacement is "farther than the radius")
                for y in ast.walk(l):
                    if isinstance(y, ast.Subscript) and any(isinstance(z, (ast.Compare, ast.BoolOp)) or (isinstance(z, ast.UnaryOp) and isinstance(z.op, ast.Invert)) or (isinstance(z, ast.Call) and (dotted(z.func) or "").split(".")[-1] in ("where", "nonzero", "flatnonzero", "isfinite", "isnan", "argwhere")) for z in ast.walk(y.slice)):
                        masked = y
                if any("get_centers" in unparse(c) for c in num_dist):
                    per_cat = True
                def whole(e) -> bool:
                    """the iterable is all of the other catalogs (the vararg itself, possibly re-ordered / copied)"""
                    if isinstance(e, ast.Name):
                        return e.id == vararg
                    if isinstance(e, ast.Call) and isinstance(e.func, ast.Name) and e.func.id in ("list", "tuple", "sorted", "reversed", "iter", "set") and e.args:
                        return whole(e.args[0])
                    return False

                if vararg and symx.mentions(l.left, lambda y: isinstance(y, ast.Call) and isinstance(y.func, ast.Name) and y.func.id == symx.ELEM and y.args and whole(y.args[0])):
                    in_loop = True
    if masked is not None:
        res.violation("C12.R3", cc, cc.node, f"the alignment test is applied to a selection of the patches only (`{unparse(masked)[:70]}`): the patches left out — e.g. single-object patches of zero radius, for which every displacement is farther than the radius — are never refused", key_extra="alignment-check-masked")
    elif good and rt is not None and rt <= 1 and in_loop and per_cat:
        res.ok("C12.R3", res.site(cc), f"for every other catalog: raises if centre distance / radius > rtol (= {rt} <= 1)")
    else:
        res.violation("C12.R3", cc, cc.node, f"the alignment check does not raise for every other catalog when its centres are farther than the patch radius (test ok={good}, rtol={rt}, loops over all={bool(in_loop)})", key_extra="alignment-check")


def rule_r4(prog, res) -> None:
    """catalog getters enumerate patches in one order"""
    cat = prog.find_class("Catalog")
    n = 0
    for name in ("get_centers", "get_radii", "get_num_records", "get_sum_weights"):
        m = cat.methods.get(name)
        if m is None:
            raise AnalysisError(f"C12.R4: Catalog.{name} vanished")
        n += 1
        res.touch(m)
        # the getter itself and the private helpers of the class it delegates the enumeration to (e.g. a shared
        # generator method): every loop / comprehension among them must run over the sorted patch view
        scope, frontier = [m], [m]
        for _ in range(2):
            nxt = []
            for f_ in frontier:
                for c_ in calls_in(f_):
                    for g_ in prog.resolve_call(f_, c_).funcs():
                        if g_.cls is not None and g_.cls in prog.mro(cat) and g_.name.startswith("_") and not g_.name.startswith("__") and g_ not in scope:
                            scope.append(g_)
                            nxt.append(g_)
            frontier = nxt
        its = [g.iter for f_ in scope for x in walk_no_nested(f_.node) if isinstance(x, (ast.GeneratorExp, ast.ListComp)) for g in x.generators]
        its += [x.iter for f_ in scope for x in walk_no_nested(f_.node) if isinstance(x, ast.For)]

        def _ordered_source(i) -> bool:
            t = unparse(i).replace(" ", "")
            return t in ("self.values()", "self.items()", "self.keys()", "self") or t.startswith("sorted(")

        if its and all(_ordered_source(i) for i in its):
            res.ok("C12.R4", res.site(m), "iterates self.values() (sorted patch ids)")
        else:
            res.violation("C12.R4", m, m.node, f"Catalog.{name} does not enumerate the patches through self.values(): per-patch arrays of different getters may be ordered differently", key_extra=f"{name}-order")
    it = cat.methods["__iter__"]
    if "sorted(" in unparse(it.node):
        res.ok("C12.R4", res.site(it), "ids are yielded in sorted order")
    else:
        res.violation("C12.R4", it, it.node, "Catalog.__iter__ does not sort the patch ids", key_extra="iter-unsorted")
    fc = prog.func("PatchLinkage.from_catalogs")
    z = [c for c in calls_in(fc) if isinstance(c.func, ast.Name) and c.func.id == "zip" and len(c.args) == 3]
    if z:
        srcs = []
        for a in z[0].args:
            vals = [v for v in all_def_values(fc.node, a.id)] if isinstance(a, ast.Name) else []
            # the objects whose methods produce the value (`cat.keys()`, `cat.get_centers()`), whatever the local is called
            srcs.append({n_.func.value.id for v in vals if v is not None for n_ in ast.walk(v) if isinstance(n_, ast.Call) and isinstance(n_.func, ast.Attribute) and isinstance(n_.func.value, ast.Name)})
        if srcs[0] & srcs[1]:
            res.ok("C12.R4", res.site(fc, "zip(ids, centers, radii)"), "ids and centres are taken from the same catalog in the same order")
        else:
            res.violation("C12.R4", fc, z[0], "ids, centres and radii zipped for the linkage do not come from the same catalog", key_extra="link-zip-sources")


def rule_r5(prog, res) -> None:
    """patch metadata (sum of weights, centre, radius) are cached as what they are (shared with C11.R8)"""
    from . import c11
    from .common import shared_rule

    shared_rule(res, c11.rule_r8, "C11", "C11.R8", "C12.R5")


def rule_r6(prog, res) -> None:
    """a catalog reports the centres it was partitioned with: in every constructor the centres handed to the patch
    writer and the centres handed to the loader of the finished catalog are the same value (symbolic store)"""
    from .. import symx

    n = 0
    for fi in prog.funcs:
        calls = {c_.func.id if isinstance(c_.func, ast.Name) else getattr(c_.func, "attr", "") for c_ in calls_in(fi)}
        if not {"write_patches", "load_patches"} <= calls:
            continue
        n += 1
        res.touch(fi)
        bad = None
        paths = [p for p in symx.explore(prog, fi, skip_tests=("logger",), env={"on_root()": True}) if p.outcome == "return"]
        for p in paths:
            w = p.calls("write_patches")
            l = p.calls("load_patches")
            if not w or not l:
                continue
            wc = kwarg(w[0].expr, "patch_centers") or (w[0].expr.args[2] if len(w[0].expr.args) > 2 else None)
            lc = kwarg(l[0].expr, "patch_centers")
            if wc is None or lc is None or unparse(wc) != unparse(lc):
                bad = (l[0], unparse(wc) if wc is not None else "<none>", unparse(lc) if lc is not None else "<none>", p.cond_text()[:80])
        if bad:
            res.violation(
                "C12.R6",
                fi,
                bad[0].node,
                f"the patches are written for the centres `{bad[1][:50]}` but the catalog is loaded with `{bad[2][:50]}` (when {bad[3]}): the reported centres are not the ones the records were assigned to, "
                "a second catalog aligned to this one gets a different partition",
                key_extra=f"centres-write-load-{fi.qualname}",
            )
        else:
            res.ok("C12.R6", res.site(fi), f"write_patches and load_patches receive the same centres on all {len(paths)} path(s)")
    if n < 3:
        raise AnalysisError(f"C12.R6: only {n} constructors that write and then load patches found, minimum 3")


def rule_r7(prog, res) -> None:
    """patch metadata restored from its stored form hold the stored values (shared with C11.R10): constructors
    initialise each attribute from the parameter of the same name"""
    from . import c11
    from .common import shared_rule

    shared_rule(res, c11.rule_r10, "C11", "C11.R10", "C12.R7")


def rule_r8(prog, res) -> None:
    """every catalog that is counted went through the linkage's consistency guard: for each combination of optional
    inputs of autocorrelate / crosscorrelate (randoms given or not, optional counts requested or not) the catalogs
    handed to any count_pairs call are among those handed to PatchLinkage.from_catalogs — the only place where the
    patch-id sets and the centre alignment of the catalogs are compared. Decided on the symbolic store."""
    from .. import symx
    from .c01 import _measure_paths

    n = 0
    for name in ("autocorrelate", "crosscorrelate"):
        fi = prog.func(name)
        res.touch(fi)
        params = set(fi.param_names())
        bad = None
        for env, p in _measure_paths(prog, fi):
            links = p.calls("from_catalogs")
            if not links:
                raise AnalysisError(f"C12.R8: {name} does not build the patch linkage through from_catalogs on some path")
            linked = set()
            for ev in links:
                for a in ev.expr.args:
                    e = symx.strip_wrappers(a.value if isinstance(a, ast.Starred) else a)
                    for y in ast.walk(e):
                        if isinstance(y, ast.Name) and y.id in params:
                            linked.add(y.id)
            counted = set()
            for ev in [e_ for e_ in p.calls() if e_.callee.startswith("count_pairs")]:
                for a in ev.expr.args:
                    if isinstance(a, ast.Name) and a.id in params and env.get(a.id, "SOME") is not None:
                        counted.add(a.id)
            n += 1
            if counted - linked and bad is None:
                bad = (ev, sorted(counted - linked), {k: v for k, v in env.items() if k != "on_root()"})
        if bad is None:
            res.ok("C12.R8", res.site(fi), "every counted catalog is handed to PatchLinkage.from_catalogs (patch-id and alignment guard) for all option combinations")
        else:
            res.violation(
                "C12.R8",
                fi,
                bad[0].node,
                f"{name} counts pairs with {bad[1]} but does not hand it to PatchLinkage.from_catalogs (options {bad[2]}): its patch ids and centres are never compared with the other catalogs, "
                "misaligned patches are counted silently instead of raising",
                key_extra=f"counted-not-linked-{name}-{'-'.join(bad[1])}",
            )
    if n < 4:
        raise AnalysisError(f"C12.R8: only {n} measurement paths analysed, minimum 4")


def rule_r9(prog, res) -> None:
    """patch metadata own their values: what Metadata.compute stores is computed from (or a copy of) its inputs, never
    the caller's object itself — an aliased centre array changes the metadata of an existing catalog when the caller
    later edits the array it passed (in one process; pickling to workers hides it). Decided on the symbolic store:
    no stored field of the new instance is a bare parameter or an attribute / view of one."""
    from .. import symx

    meta = prog.find_class("Metadata")
    n = 0
    for m in meta.methods.values():
        if not m.is_classmethod or m.name in ("from_dict", "from_file"):
            continue
        params = set(m.param_names()) - {"cls"}
        paths = [p for p in symx.explore(prog, m, inline=symx.inline_private_helpers(prog)) if p.outcome == "return"]
        if not paths:
            continue
        res.touch(m)
        bad = None
        for p in paths:
            rv = p.node.value if isinstance(p.node, ast.Return) and isinstance(p.node.value, ast.Name) else None
            if rv is None:
                continue
            for key, val in p.store.items():
                if not (isinstance(key, str) and key.startswith(rv.id + ".") and key.count(".") == 1):
                    continue
                n += 1
                e = symx.strip_wrappers(val)
                root = e
                while isinstance(root, (ast.Attribute, ast.Subscript)):
                    root = root.value
                aliased = isinstance(root, ast.Name) and root.id in params and not any(isinstance(y, ast.Call) for y in ast.walk(e))
                if aliased:
                    bad = bad or (key.split(".")[1], unparse(e))
        if bad:
            res.violation(
                "C12.R9",
                m,
                m.node,
                f"Metadata.{m.name} stores the caller's object as `{bad[0]} = {bad[1]}` (no copy): editing that array afterwards changes the metadata of the existing catalog — "
                "centres no longer describe the stored partition, although a freshly opened catalog looks right",
                key_extra=f"meta-alias-{bad[0]}",
            )
        else:
            res.ok("C12.R9", res.site(m), "every stored field is computed from or a copy of the inputs")
    if n < 3:
        raise AnalysisError(f"C12.R9: only {n} metadata fields found in the computing constructor, minimum 3")


def rule_r10(prog, res) -> None:
    """the patch guards are evaluated on the catalogs at hand, every time: no memo of an earlier verdict (a catalog can
    be re-created in place under the same cache directory with other centres; a remembered "aligned" then lets a
    misaligned pair through)"""
    from .common import memo_rule

    memo_rule(prog, res, "C12.R10", lambda f: f.module.name.startswith(("yaw.correlation.measurements", "yaw.catalog.catalog", "yaw.catalog.patch")), "the verdict of a patch guard is reused for catalogs that have changed since")


RULES = [
    ("C12.R1", rule_r1, QUICK),
    ("C12.R2", rule_r2, QUICK),
    ("C12.R3", rule_r3, QUICK),
    ("C12.R4", rule_r4, QUICK),
    ("C12.R5", rule_r5, QUICK),
    ("C12.R6", rule_r6, QUICK),
    ("C12.R7", rule_r7, QUICK),
    ("C12.R8", rule_r8, QUICK),
    ("C12.R9", rule_r9, QUICK),
    ("C12.R10", rule_r10, QUICK),
]
