"""to_dict / from_dict / modify protocols decided on the symbolic store (yawsa.symx).

A producer (to_dict, or the dictionary that modify hands to from_dict) is explored path by path; the dictionary
is a literal {key: expression} in terms of the object's attributes and the method's parameters.  The consumer
(from_dict) is explored with its parameter bound to that literal and with the producer's path decisions as known
facts, so `d.pop("k")`, `d.get("k", default)`, `"k" in d`, `d.update(...)` and `f(**d)` act on the literal.
Reported: a feasible path on which a key is popped / subscripted that the dictionary does not hold (KeyError),
a `**d` expansion into a callable that does not accept one of the keys, and a modify() whose dictionary leaves out
a key that to_dict() stores with a value."""

from __future__ import annotations

import ast
from dataclasses import dataclass

from . import symx
from .model import AnalysisError, ClassInfo, FuncInfo, Program, dotted, unparse
from .totality import _signature


@dataclass
class Problem:
    node: ast.AST
    func: FuncInfo
    message: str
    key: str


def accepted_params(prog: Program, target) -> tuple[set, bool]:
    if isinstance(target, ClassInfo):
        init = prog.find_method(target, "__init__")
        if init is None:
            return set(), True
        sig = _signature(init, bound=True)
    else:
        sig = _signature(target, bound=target.cls is not None and not target.is_staticmethod)
    return set(sig["pos"]) | set(sig["kwonly"]), sig["kwarg"]


def _policy(prog: Program, keep: set):
    def pol(caller: FuncInfo, call: ast.Call, callee: FuncInfo) -> bool:
        if callee.name in keep or callee.is_property:
            return False
        return callee.module is caller.module or callee.name == "from_dict"

    return pol


def _dict_of(e) -> ast.Dict | None:
    e = symx.strip_wrappers(e)
    if isinstance(e, ast.Dict) and all(isinstance(k, ast.Constant) for k in e.keys):
        return e
    return None


def _all_keys_of_filtered_comprehension(prog: Program, fi: FuncInfo, e) -> ast.Dict | None:
    """{k: f(k) for k in <literal names> if <condition on the value>}: the dictionary holds a subset of the names;
    the protocol is checked for the largest one (every key that can occur must be accepted by the consumer)"""
    import copy

    e = symx.strip_wrappers(e)
    if not (isinstance(e, ast.DictComp) and len(e.generators) == 1 and isinstance(e.generators[0].target, ast.Name) and isinstance(e.key, ast.Name) and e.key.id == e.generators[0].target.id):
        return None
    ex = symx.Explorer(prog)
    ex._stack.append(fi)
    items = ex.literal_items(e.generators[0].iter, fi)
    if items is None or not all(isinstance(x, ast.Constant) and isinstance(x.value, str) for x in items):
        return None
    tgt = e.generators[0].target.id

    class Sub(ast.NodeTransformer):
        def __init__(self, c):
            self.c = c

        def visit_Name(self, n):
            return ast.Constant(value=self.c) if n.id == tgt else n

    return ast.Dict(keys=[ast.Constant(value=x.value) for x in items], values=[Sub(x.value).visit(copy.deepcopy(e.value)) for x in items])


def produced(prog: Program, td: FuncInfo) -> list[tuple[symx.SymPath, ast.Dict]]:
    out = []
    for p in symx.explore(prog, td, inline=_policy(prog, {"to_dict", "create", "modify"}), skip_tests=("logger",)):
        if p.outcome != "return" or p.value is None:
            continue
        d = _dict_of(p.value)
        if d is None:
            d = _all_keys_of_filtered_comprehension(prog, td, p.value)
        if d is None:
            raise AnalysisError(f"dict protocol: cannot determine the keys returned by {td.short} ({unparse(p.value)[:60]})")
        out.append((p, d))
    if not out:
        raise AnalysisError(f"dict protocol: {td.short} returns no dictionary")
    return out


def check_paths(prog: Program, ci: ClassInfo, paths, label: str, state_keys: set | None = None, written_elsewhere: set | None = None) -> list[Problem]:
    """problems on consumer paths: KeyError on a literal dictionary, unaccepted keys of a ** expansion, and — when
    the keys that carry object state are given — a state key that is absent from the dictionary and silently
    replaced by the reader's default"""
    probs: list[Problem] = []
    seen = set()
    for p in paths:
        for ev in p.events:
            if ev.kind == "defaulted" and state_keys and ev.expr.value in state_keys:
                key = ev.expr.value
                k_ = ("defaulted", id(ev.node), key)
                if k_ not in seen:
                    seen.add(k_)
                    have = sorted(k.value for k in ev.value.keys) if isinstance(ev.value, ast.Dict) else []
                    probs.append(
                        Problem(
                            ev.node,
                            ev.fi,
                            f"{label}: '{key}' is not in the dictionary written on this path (keys: {have}) although it carries object state (other paths write it, or the object is constructed from it); the reader silently takes its default instead of the object's value "
                            f"[when {p.cond_text()[:120]}]",
                            f"defaulted-{key}",
                        )
                    )
            if ev.kind == "keyerror":
                key = ev.expr.value
                have = sorted(k.value for k in ev.value.keys) if isinstance(ev.value, ast.Dict) else []
                k_ = ("pop", id(ev.node), key)
                if k_ not in seen:
                    seen.add(k_)
                    probs.append(Problem(ev.node, ev.fi, f"{label}: '{key}' is popped without default but is never produced on this path (keys: {have}): KeyError [when {p.cond_text()[:120]}]", f"pop-missing-{key}"))
        for ev in p.calls():
            if not any(k.arg is None for k in ev.node.keywords):
                continue
            f = ev.node.func
            target = None
            fd = dotted(f) or ""
            if fd in ("cls",) or (isinstance(f, ast.Call) and (dotted(f.func) or "") == "type"):
                target = ci
            elif isinstance(f, ast.Attribute) and ((dotted(f.value) or "") == "cls" or (isinstance(f.value, ast.Call) and (dotted(f.value.func) or "") == "type")):
                target = prog.find_method(ci, f.attr)
            else:
                # the receiver as it is on this path (a class handed in as an argument of a helper is known here)
                fs = ev.expr.func
                if isinstance(fs, ast.Attribute) and isinstance(fs.value, ast.Name) and fs.value.id[:1].isupper():
                    cands = prog.find_classes(fs.value.id)
                    if len(cands) == 1:
                        target = prog.find_method(cands[0], fs.attr)
                if target is None:
                    tg = prog.resolve_call(ev.fi, ev.node)
                    target = (tg.classes() or tg.funcs() or [None])[0]
            if target is None:
                continue
            if any(k.arg is None for k in ev.expr.keywords):
                continue  # the expanded dictionary is not a literal here (e.g. the method's own **kwargs)
            names, has_kw = accepted_params(prog, target)
            tname = target.name if isinstance(target, ClassInfo) else target.qualname
            given = [k.arg for k in ev.expr.keywords]
            # what the target REQUIRES must be in the dictionary (or given explicitly): a key that the writer no longer
            # produces is a TypeError at the first load
            tfn = prog.find_method(target, "__init__") if isinstance(target, ClassInfo) else target
            if tfn is not None and not (isinstance(target, ClassInfo) and target.is_dataclass):
                sig_ = _signature(tfn, bound=tfn.cls is not None and not tfn.is_staticmethod)
                npos_ = len([a_ for a_ in ev.expr.args if not isinstance(a_, ast.Starred)])
                have_ = set(sig_["pos"][:npos_]) | set(given)
                # (a key that another arm of the writer produces is left out here by a filter — `if value is not None` —
                # whose condition is not known on this path: no verdict)
                miss_ = sorted(q for q in [*sig_["required_pos"], *sig_["required_kw"]] if q not in have_ and q not in (written_elsewhere or ()))
                k_ = ("required", id(ev.node), tuple(miss_))
                if miss_ and not any(isinstance(a_, ast.Starred) for a_ in ev.expr.args) and k_ not in seen:
                    seen.add(k_)
                    probs.append(Problem(ev.node, ev.fi, f"{label}: {tname}() requires {miss_}, which are neither in the dictionary on this path (keys passed: {sorted(g for g in given if g)}) nor given explicitly: TypeError when the stored form is loaded [when {p.cond_text()[:100]}]", f"required-{'-'.join(miss_)}"))
            bad = sorted(k for k in given if k not in names and not has_kw)
            dup = sorted({k for k in given if given.count(k) > 1})
            for kind, ks in (("unaccepted", bad), ("duplicate", dup)):
                k_ = (kind, id(ev.node), tuple(ks))
                if ks and k_ not in seen:
                    seen.add(k_)
                    msg = f"{label}: keys {ks} of the dictionary are passed to {tname}(), which does not accept them" if kind == "unaccepted" else f"{label}: keys {ks} are passed both explicitly and through the ** expansion"
                    probs.append(Problem(ev.node, ev.fi, msg + f" [when {p.cond_text()[:100]}]", f"{kind}-{'-'.join(ks)}"))
    return probs


def consume(prog: Program, ci: ClassInfo, fd: FuncInfo, param: str, d: ast.Dict, facts: dict, label: str, state_keys: set | None = None, written_elsewhere: set | None = None) -> list[Problem]:
    paths = symx.explore(prog, fd, binding={param: d}, facts=facts, inline=_policy(prog, {"create", "modify", "to_dict"}), skip_tests=("logger",))
    return check_paths(prog, ci, paths, label, state_keys, written_elsewhere)


def facts_of(p: symx.SymPath) -> dict:
    return {unparse(t): pol for t, pol in p.literals()}
