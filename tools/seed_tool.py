#!/venv/bin/python
"""Development helper for the seeded changes produced by independent sub-agents.

  seed_tool.py verify  <PROP> <x>   confirm in the scratch worktree /tmp/seed_<PROP>: patch applies, the 111 tests pass
                                    with it, demo fails with it and passes without it; then copy to /verif/seeded/<PROP>-<x>/
  seed_tool.py eval    [<PROP>-<x> …]  apply each kept patch to /repo, run every quick check, undo, record which checks fire
"""
import json
import os
import shutil
import subprocess
import sys

VERIF = os.path.dirname(os.path.dirname(os.path.abspath(__file__)))
PY = "/venv/bin/python"
PROPS = ["C01", "C02", "C03", "C04", "C05", "C06", "C07", "C08", "C09", "C10", "C11", "C12", "C15", "C16", "C17", "C18"]


def sh(cmd, cwd=None, env=None, timeout=900):
    e = dict(os.environ)
    e.update(env or {})
    return subprocess.run(cmd, shell=True, cwd=cwd, env=e, capture_output=True, text=True, timeout=timeout)


def verify(prop: str, x: str) -> bool:
    wt = os.environ.get("SEED_WT_PREFIX", "/tmp/seed_") + prop
    sd = f"{wt}/SEED/{x}"
    env = {"PYTHONPATH": f"{wt}/src", "YAW_NUM_THREADS": "1"}
    log = {}
    if sh("git status --porcelain -- src", cwd=wt).stdout.strip():
        print("worktree not pristine")
        return False
    r = sh(f"git apply --check {sd}/patch.diff", cwd=wt)
    log["applies"] = r.returncode == 0
    if not log["applies"]:
        print("patch does not apply", r.stderr)
        return False
    d0 = sh(f"timeout 300 {PY} {sd}/demo.py", cwd=wt, env=env)
    log["demo_pristine_rc"] = d0.returncode
    sh(f"git apply {sd}/patch.diff", cwd=wt)
    try:
        t = sh(f"{PY} -m pytest -q -p no:cacheprovider -x 2>&1 | tail -3", cwd=wt, env=env)
        log["tests"] = t.stdout.strip().splitlines()[-1] if t.stdout.strip() else ""
        d1 = sh(f"timeout 300 {PY} {sd}/demo.py", cwd=wt, env=env)
        log["demo_patched_rc"] = d1.returncode
        log["demo_patched_tail"] = (d1.stdout + d1.stderr).strip().splitlines()[-3:]
    finally:
        sh("git checkout -- src", cwd=wt)
        sh("rm -f coverage.xml", cwd=wt)
    ok = log["demo_pristine_rc"] == 0 and log["demo_patched_rc"] not in (0, None) and "111 passed" in log["tests"]
    print(json.dumps(log, indent=1))
    if ok:
        dest = f"{VERIF}/seeded/{prop}-{x}"
        os.makedirs(dest, exist_ok=True)
        for f in ("patch.diff", "demo.py", "README.md"):
            if os.path.exists(f"{sd}/{f}"):
                shutil.copy(f"{sd}/{f}", f"{dest}/{f}")
        readme = open(f"{sd}/README.md").read() if os.path.exists(f"{sd}/README.md") else ""
        meta = {
            "id": f"{prop}-{x}",
            "property": prop,
            "origin": "independent sub-agent, given only the property text and a scratch worktree",
            "needs_to_manifest": readme[:1500],
            "confirmed": {
                "patch_applies_on": sh("git rev-parse --short HEAD", cwd=wt).stdout.strip(),
                "tests_with_patch": log["tests"],
                "demo_rc_pristine": log["demo_pristine_rc"],
                "demo_rc_patched": log["demo_patched_rc"],
                "commands": [
                    f"git -C <worktree> apply patch.diff; PYTHONPATH=<worktree>/src {PY} -m pytest -q -p no:cacheprovider -x",
                    f"PYTHONPATH=<worktree>/src YAW_NUM_THREADS=1 {PY} demo.py   (with and without the patch)",
                ],
            },
        }
        json.dump(meta, open(f"{dest}/meta.json", "w"), indent=1)
        print("kept ->", dest)
    else:
        print("NOT kept")
    return ok


def evaluate(ids):
    base = f"{VERIF}/seeded"
    ids = ids or sorted(d for d in os.listdir(base) if os.path.isdir(f"{base}/{d}"))
    if sh("git status --porcelain", cwd="/repo").stdout.strip():
        print("/repo not clean, refusing")
        return
    table = {}
    for sid in ids:
        patch = f"{base}/{sid}/patch.diff"
        r = sh(f"git apply {patch}", cwd="/repo")
        if r.returncode != 0:
            print(sid, "does not apply to /repo:", r.stderr.strip()[:200])
            table[sid] = {"applies": False}
            continue
        try:
            fired = {}
            for p in PROPS:
                c = sh(f"{PY} -m yawsa check {p} --no-evidence", cwd=VERIF)
                if c.returncode == 1:
                    fired[p] = sorted({ln.split("]")[0][1:] for ln in c.stdout.splitlines() if ln.startswith("[C")})
                elif c.returncode == 2:
                    fired[p] = ["ANALYSIS-ERROR: " + next((ln for ln in c.stdout.splitlines() if ln.startswith("ANALYSIS-ERROR")), "")[:160]]
            table[sid] = {"applies": True, "fired": fired}
        finally:
            sh("git checkout -- .", cwd="/repo")
        own = sid.split("-")[0]
        f = table[sid].get("fired", {})
        verdict = "CAUGHT" if any(v and not v[0].startswith("ANALYSIS") for v in f.values()) else ("analysis-error only" if f else "MISSED")
        print(f"{sid:8s} {verdict:20s} {json.dumps(f)}")
        mp = f"{base}/{sid}/meta.json"
        if os.path.exists(mp):
            m = json.load(open(mp))
            m["checks_run"] = {"command": "git -C /repo apply patch.diff; /venv/bin/python -m yawsa check <each property> ; git -C /repo checkout -- .", "fired": f, "verdict": verdict}
            json.dump(m, open(mp, "w"), indent=1)
    json.dump(table, open(f"{VERIF}/seeded/catch_matrix.json", "w"), indent=1)


if __name__ == "__main__":
    if sys.argv[1] == "verify":
        sys.exit(0 if verify(sys.argv[2], sys.argv[3]) else 1)
    elif sys.argv[1] == "eval":
        evaluate(sys.argv[2:])
