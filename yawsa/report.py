"""Results, findings, known-findings handling, evidence and replay files."""

from __future__ import annotations

import ast
import hashlib
import json
import os
import time
from dataclasses import dataclass, field

from .model import AnalysisError, FuncInfo, norm_stmt

VERIF_DIR = os.path.dirname(os.path.dirname(os.path.abspath(__file__)))
KNOWN_FILE = os.path.join(VERIF_DIR, "known_findings.json")


@dataclass
class Finding:
    prop: str
    rule: str
    key: str
    file: str
    function: str
    line: int
    construct: str
    message: str
    detail: dict = field(default_factory=dict)

    def to_json(self) -> dict:
        return {
            "property": self.prop,
            "rule": self.rule,
            "key": self.key,
            "file": self.file,
            "function": self.function,
            "line": self.line,
            "construct": self.construct,
            "message": self.message,
            "detail": self.detail,
            "status": "violation",
        }


@dataclass
class Obligation:
    rule: str
    site: str
    verdict: str  # discharged | violated
    why: str
    nontrivial: bool = True

    def to_json(self) -> dict:
        return {"rule": self.rule, "site": self.site, "verdict": self.verdict, "why": self.why}


class Result:
    def __init__(self, prop: str, prog, tier: str) -> None:
        self.prop = prop
        self.prog = prog
        self.tier = tier
        self.obligations: list[Obligation] = []
        self.findings: list[Finding] = []
        self.rule_counts: dict[str, int] = {}
        self.assumptions: list[str] = []
        self.notes: list[str] = []
        self.rules_run: list[str] = []
        self.functions_analysed: set[str] = set()
        self.unresolved_at_anchor = 0

    # -- bookkeeping
    def touch(self, fi: FuncInfo) -> None:
        self.functions_analysed.add(fi.key)

    def count(self, rule: str, n: int = 1) -> None:
        self.rule_counts[rule] = self.rule_counts.get(rule, 0) + n

    def ok(self, rule: str, site: str, why: str, *, nontrivial: bool = True) -> None:
        self.count(rule)
        self.obligations.append(Obligation(rule, site, "discharged", why, nontrivial))

    def site(self, fi: FuncInfo | None, extra: str = "") -> str:
        base = fi.short if fi is not None else "<module>"
        return f"{base}{(' :: ' + extra) if extra else ''}"

    def violation(
        self,
        rule: str,
        fi: FuncInfo | None,
        node: ast.AST | None,
        message: str,
        *,
        construct: str | None = None,
        key_extra: str | None = None,
        detail: dict | None = None,
        module=None,
    ) -> None:
        self.count(rule)
        construct = construct if construct is not None else (norm_stmt(node) if node is not None else "")
        mod = fi.module if fi is not None else module
        fn = (fi.qualname + (f"[{fi.variant}]" if fi.variant else "")) if fi is not None else "<module>"
        key = f"{rule}|{mod.name if mod else '?'}|{fn}|{key_extra if key_extra is not None else construct}"
        f = Finding(
            self.prop,
            rule,
            key,
            mod.relpath if mod else "?",
            fn,
            getattr(node, "lineno", 0) or getattr(getattr(node, "context_expr", None), "lineno", 0) or 0,
            construct,
            message,
            detail or {},
        )
        if any(x.key == key for x in self.findings):
            return
        self.findings.append(f)
        self.obligations.append(Obligation(rule, self.site(fi, construct[:80]), "violated", message))

    def require(self, rule: str, minimum: int, what: str = "instances") -> None:
        got = self.rule_counts.get(rule, 0)
        if got < minimum:
            raise AnalysisError(
                f"{rule}: only {got} {what} recognised, hand-confirmed minimum is {minimum} "
                f"(anchor vanished or idiom not recognised)"
            )

    def assume(self, *texts: str) -> None:
        for t in texts:
            if t not in self.assumptions:
                self.assumptions.append(t)


def load_known() -> list[dict]:
    if not os.path.exists(KNOWN_FILE):
        return []
    with open(KNOWN_FILE, encoding="utf-8") as f:
        return json.load(f)


def replay_path(prop: str, key: str, root: str | None = None) -> str:
    h = hashlib.sha1(key.encode()).hexdigest()[:12]
    base = VERIF_DIR
    if os.environ.get("YAWSA_SELFTEST_CHILD") and root and os.path.abspath(root) != "/repo":
        base = root  # self-validation runs keep their replay files inside their scratch copy
    d = os.path.join(base, "out", prop)
    os.makedirs(d, exist_ok=True)
    return os.path.join(d, f"{h}.json")


def emit(res: Result, *, wall_s: float, seed: int, explanation: str, error: str | None = None, root: str = "/repo", write_evidence: bool = True) -> int:
    """Print verdict lines, write replay + evidence files, return the exit code."""
    known = {k["key"]: k for k in load_known() if k.get("status") == "known" and k.get("property") == res.prop}
    new, old = [], []
    for f in res.findings:
        (old if f.key in known else new).append(f)
    for f in old:
        print(f"KNOWN-FINDING: property={res.prop} {f.rule} {f.function}: {known[f.key].get('what', f.message)}")
    for f in new:
        path = replay_path(res.prop, f.key, root)
        j = f.to_json()
        j["root"] = root
        with open(path, "w", encoding="utf-8") as fh:
            json.dump(j, fh, indent=1)
        print(f"[{f.rule}] {f.file}:{f.line} in {f.function}: {f.message}")
        print(f"    construct: {f.construct}")
        print(f"VIOLATION property={res.prop} replay={path}")
    if error:
        print(f"ANALYSIS-ERROR property={res.prop} {error}")
    obligations = len(res.obligations)
    discharged = sum(1 for o in res.obligations if o.verdict == "discharged")
    distinct = len({(o.rule, o.site) for o in res.obligations if o.nontrivial})
    samples = [o.to_json() for o in res.obligations if o.verdict != "discharged"][:10]
    per_rule: dict[str, list] = {}
    for o in res.obligations:
        per_rule.setdefault(o.rule, []).append(o)
    for rule in sorted(per_rule):
        samples.extend(x.to_json() for x in per_rule[rule][:3])
    ev = {
        "property_id": res.prop,
        "tier": res.tier,
        "seed": seed,
        "level": "other",
        "wall_s": round(wall_s, 3),
        "violations": len(new),
        "coverage": {
            "explanation": explanation,
            "evaluations": max(obligations, 1) if not error else obligations,
            "distinct_nontrivial": distinct,
            "rule": "one evaluation = one rule instance decided at one site of /repo's current source; "
            "non-trivial = the site contains the construct the rule constrains; distinct = distinct (rule, site) pairs",
            "obligations": obligations,
            "discharged": discharged,
            "known_findings_reported": len(old),
            "rule_instances": dict(sorted(res.rule_counts.items())),
            "rules_run": res.rules_run,
            "modules_parsed": len(res.prog.modules) if res.prog else 0,
            "functions_in_program": len(res.prog.funcs) if res.prog else 0,
            "functions_analysed_by_rules": len(res.functions_analysed),
            "variants": ["mp", "mpi"],
            "samples": samples[:40],
            "notes": res.notes,
            "analysis_error": error,
            "source_root": root,
        },
        "assumptions": res.assumptions,
    }
    if write_evidence:
        os.makedirs(os.path.join(VERIF_DIR, "evidence"), exist_ok=True)
        with open(os.path.join(VERIF_DIR, "evidence", f"{res.prop}.json"), "w", encoding="utf-8") as fh:
            json.dump(ev, fh, indent=1)
    if new:
        return 1  # definite violations stand even if another rule lost its anchor
    if error:
        return 2
    return 0
