"""Reproducers for finding #18: patch pairs pruned although they hold pairs.
 a) link radii taken from the catalog with most records only
 b) pruning angle evaluated at max(zmin, 0.05) instead of at the bin centres
exit 1 = defect"""
import os, sys, tempfile, shutil
os.environ["YAW_NUM_THREADS"] = "1"
import numpy as np, pandas as pd
tmp = tempfile.mkdtemp(prefix="yawdemo_")
rc = 0
def brute(ra1, dec1, ra2, dec2, tmin, tmax, auto):
    def xyz(ra, dec):
        ra, dec = np.deg2rad(ra), np.deg2rad(dec)
        return np.column_stack([np.cos(ra) * np.cos(dec), np.sin(ra) * np.cos(dec), np.sin(dec)])
    a, b = xyz(ra1, dec1), xyz(ra2, dec2)
    d = np.sqrt(((a[:, None, :] - b[None, :, :]) ** 2).sum(-1))
    ang = 2 * np.arcsin(np.clip(d / 2, 0, 1))
    n = np.sum((ang > tmin) & (ang <= tmax))
    return n / 2 if auto else n
try:
    from yaw import Catalog, AngularCoordinates, Configuration, autocorrelate
    rng = np.random.default_rng(5)
    centers = AngularCoordinates(np.deg2rad([[0.0, 0.0], [10.0, 0.0]]))
    # a) dense compact data, sparse wide randoms
    nd = 600
    d_ra = np.concatenate([rng.normal(0, 0.3, nd // 2), rng.normal(10, 0.3, nd // 2)]); d_dec = rng.normal(0, 0.3, nd)
    nr = 300
    r_ra = rng.uniform(-4.9, 14.9, nr); r_dec = rng.uniform(-1, 1, nr)
    z_d = rng.uniform(0.5, 0.6, nd); z_r = rng.uniform(0.5, 0.6, nr)
    data = Catalog.from_dataframe(os.path.join(tmp, "d"), pd.DataFrame(dict(ra=d_ra, dec=d_dec, z=z_d)), ra_name="ra", dec_name="dec", redshift_name="z", patch_centers=centers)
    rand = Catalog.from_dataframe(os.path.join(tmp, "r"), pd.DataFrame(dict(ra=r_ra, dec=r_dec, z=z_r)), ra_name="ra", dec_name="dec", redshift_name="z", patch_centers=centers)
    cfg = Configuration.create(rmin=0.1, rmax=1.0, unit="deg", zmin=0.4, zmax=0.7, num_bins=1)
    cf = autocorrelate(cfg, data, rand, count_rr=True)[0]
    got = cf.rr.counts.counts.sum()
    exp = brute(r_ra, r_dec, r_ra, r_dec, np.deg2rad(0.1), np.deg2rad(1.0), True)
    print(f"a) RR pairs within (0.1, 1.0] deg: measured {got:.0f}, brute force {exp:.0f}")
    if not np.isclose(got, exp):
        print("DEFECT: pairs between distant random patches are lost (radii taken from the data catalog only)"); rc = 1
    # b) very low redshift: counting angle much larger than the pruning angle at z=0.05
    n = 400
    centers_b = AngularCoordinates(np.deg2rad([[0.0, 0.0], [3.5, 0.0]]))
    ra = np.concatenate([rng.uniform(-1, 1, n // 2), rng.uniform(2.5, 4.5, n // 2)]); dec = rng.uniform(-1, 1, n); z = rng.uniform(0.011, 0.019, n)
    cat = Catalog.from_dataframe(os.path.join(tmp, "l"), pd.DataFrame(dict(ra=ra, dec=dec, z=z)), ra_name="ra", dec_name="dec", redshift_name="z", patch_centers=centers_b)
    cfg = Configuration.create(rmin=100, rmax=2000, unit="kpc", zmin=0.01, zmax=0.02, num_bins=1)
    tmin, tmax = cfg.scales.scales.get_angle_radian(0.015, cosmology=cfg.cosmology)
    cf = autocorrelate(cfg, cat, cat, count_rr=False)[0]
    got = cf.dd.counts.counts.sum()
    exp = brute(ra, dec, ra, dec, tmin[0], tmax[0], True)
    print(f"b) DD pairs within ({np.rad2deg(tmin[0]):.2f}, {np.rad2deg(tmax[0]):.2f}] deg at z=0.015: measured {got:.0f}, brute force {exp:.0f}")
    if not np.isclose(got, exp):
        print("DEFECT: pairs lost, pruning angle evaluated at z=0.05 is smaller than the counting angle"); rc = 1
finally:
    shutil.rmtree(tmp, ignore_errors=True)
sys.exit(rc)
