"""Generic totality rules: attribute existence and keyword/arity existence on resolved
receivers and callees.  Used by C15.R1 / C17.R1 (and package-wide in the thorough tier)."""

from __future__ import annotations

import ast

from .model import ClassInfo, External, FuncInfo, Program, dotted, unparse, walk_no_nested


def _narrowed_names(fi: FuncInfo) -> dict[str, ClassInfo]:
    """names narrowed to the class of self by `isinstance(x, type(self))` guards that return/raise otherwise"""
    out = {}
    if fi.cls is None:
        return out
    for x in walk_no_nested(fi.node):
        if isinstance(x, ast.Call) and isinstance(x.func, ast.Name) and x.func.id == "isinstance" and len(x.args) == 2:
            a, t = x.args
            if isinstance(a, ast.Name) and isinstance(t, ast.Call) and isinstance(t.func, ast.Name) and t.func.id == "type":
                out[a.id] = fi.cls
            elif isinstance(a, ast.Name) and isinstance(t, ast.Name) and t.id == fi.cls.name:
                out[a.id] = fi.cls
    return out


def concrete_subclasses(prog: Program, ci: ClassInfo) -> list[ClassInfo]:
    subs = [c for c in [ci] + prog.subclasses(ci)]
    out = []
    for c in subs:
        abstract = any(m.is_abstract for m in _all_methods(prog, c).values())
        if not abstract:
            out.append(c)
    return out


def _all_methods(prog: Program, ci: ClassInfo) -> dict:
    out = {}
    for c in reversed(prog.mro(ci)):
        if isinstance(c, ClassInfo):
            out.update(c.methods)
    return out


def missing_attributes(prog: Program, fi: FuncInfo):
    """[(node, receiver text, attr, classes lacking it)] for attribute loads on receivers typed as
    in-repo classes where the attribute exists in none of the possible classes (for `self`: is missing
    in some concrete class the method can run on)."""
    hits = []
    if fi.cls is None:
        return hits
    env = prog.func_env(fi)
    params = fi.param_names()
    selfname = params[0] if params and not fi.is_staticmethod and not fi.is_classmethod else None
    narrowed = _narrowed_names(fi)
    seen = set()
    for x in walk_no_nested(fi.node):
        if not (isinstance(x, ast.Attribute) and isinstance(x.ctx, ast.Load)):
            continue
        recv = x.value
        classes: list[ClassInfo] = []
        mode = None
        if isinstance(recv, ast.Name) and recv.id == selfname:
            classes = concrete_subclasses(prog, fi.cls) or [fi.cls]
            mode = "self"
        elif isinstance(recv, ast.Name) and recv.id in narrowed:
            classes = concrete_subclasses(prog, fi.cls) or [fi.cls]
            mode = "self"
        else:
            continue
        if x.attr.startswith("__") and x.attr.endswith("__"):
            continue
        lacking = [c for c in classes if x.attr not in prog.class_attr_names(c)]
        if lacking and len(lacking) == len(classes) or (mode == "self" and lacking):
            key = (unparse(recv), x.attr)
            if key in seen:
                continue
            seen.add(key)
            hits.append((x, unparse(recv), x.attr, lacking))
    return hits


def _signature(fi: FuncInfo, *, bound: bool):
    a = fi.node.args
    pos = [p.arg for p in [*a.posonlyargs, *a.args]]
    if bound and pos:
        pos = pos[1:]
    kwonly = [p.arg for p in a.kwonlyargs]
    n_defaults = len(a.defaults)
    required_pos = pos[: len(pos) - n_defaults] if n_defaults else list(pos)
    required_kw = [p.arg for p, d in zip(a.kwonlyargs, a.kw_defaults) if d is None]
    posonly = [p.arg for p in a.posonlyargs][(1 if bound else 0) :]
    return dict(pos=pos, kwonly=kwonly, vararg=a.vararg is not None, kwarg=a.kwarg is not None, required_pos=required_pos, required_kw=required_kw, posonly=posonly)


def callee_signatures(prog: Program, fi: FuncInfo, call: ast.Call):
    """[(label, signature)] for precisely resolved in-repo callees; `type(self)(…)` and `cls(…)`
    expand to all concrete subclasses."""
    f = call.func
    out = []
    classes: list[ClassInfo] = []
    if isinstance(f, ast.Call) and isinstance(f.func, ast.Name) and f.func.id == "type" and len(f.args) == 1 and fi.cls is not None:
        a = f.args[0]
        if isinstance(a, ast.Name) and a.id == (fi.param_names() or [None])[0]:
            classes = concrete_subclasses(prog, fi.cls) or [fi.cls]
    elif isinstance(f, ast.Name) and fi.is_classmethod and fi.param_names() and f.id == fi.param_names()[0] and fi.cls is not None:
        classes = concrete_subclasses(prog, fi.cls) or [fi.cls]
    if classes:
        for c in classes:
            init = prog.find_method(c, "__init__")
            if init is not None:
                out.append((f"{c.name}.__init__", _signature(init, bound=True)))
        return out
    tg = prog.resolve_call(fi, call)
    if not tg.precise:
        return out
    for t in tg.targets:
        if isinstance(t, ClassInfo):
            if t.is_dataclass:
                continue
            init = prog.find_method(t, "__init__")
            if init is not None:
                out.append((f"{t.name}.__init__", _signature(init, bound=True)))
        elif isinstance(t, FuncInfo):
            if any(d not in ("classmethod", "staticmethod", "property", "abstractmethod", "abc.abstractmethod") for d in t.decorators()):
                continue  # decorated: signature may be changed
            bound = t.cls is not None and not t.is_staticmethod
            # Class.method(self, …) called through the class: not bound
            if bound and isinstance(f, ast.Attribute):
                env = prog.func_env(fi)
                bt = env.type_of(f.value)
                if any(x[0] == "type" for x in bt) and not t.is_classmethod:
                    bound = False
            out.append((t.short, _signature(t, bound=bound)))
    return out


def bad_arguments(prog: Program, fi: FuncInfo, call: ast.Call):
    """[(label, problem)] for keyword names / positional counts the callee does not accept."""
    probs = []
    has_star = any(isinstance(a, ast.Starred) for a in call.args)
    has_dstar = any(k.arg is None for k in call.keywords)
    npos = len([a for a in call.args if not isinstance(a, ast.Starred)])
    for label, sig in callee_signatures(prog, fi, call):
        for k in call.keywords:
            if k.arg is None:
                continue
            if k.arg not in sig["pos"] and k.arg not in sig["kwonly"] and not sig["kwarg"]:
                probs.append((label, f"unexpected keyword argument '{k.arg}'"))
            if k.arg in sig["posonly"]:
                probs.append((label, f"positional-only parameter '{k.arg}' passed by keyword"))
        if not sig["vararg"] and npos > len(sig["pos"]):
            probs.append((label, f"{npos} positional arguments but only {len(sig['pos'])} accepted"))
        if not has_star and not has_dstar:
            given = set(sig["pos"][:npos]) | {k.arg for k in call.keywords if k.arg}
            miss = [p for p in sig["required_pos"] if p not in given] + [p for p in sig["required_kw"] if p not in given]
            if miss:
                probs.append((label, f"missing required argument(s) {miss}"))
    return probs
