import numpy as np, tempfile, os
from yaw import Configuration
from yaw.catalog.trees import AngularTree
from yaw.coordinates import AngularCoordinates
cfg = Configuration.create(rmin=100, rmax=1000, zmin=0.1, zmax=1.0, num_bins=2, rweight=-0.8)
print("resolution:", cfg.scales.resolution)
rng = np.random.default_rng(0)
c = AngularCoordinates(np.column_stack([rng.uniform(0, 0.1, 50), rng.uniform(0, 0.1, 50)]))
t = AngularTree(c)
try:
    # what process_patch_pair does with this configuration
    t.count(t, 0.001, 0.01, weight_scale=cfg.scales.rweight, weight_res=cfg.scales.resolution)
    print("ok"); raise SystemExit(0)
except TypeError as e:
    print("TypeError:", e); raise SystemExit(1)
