"""Reproducer for finding #20: HealPixRandoms draws pixels from numpy's global random state.
healpy is not installed here: a minimal stub module provides the four functions used.
exit 1 = defect"""
import sys, types
import numpy as np
hp = types.ModuleType("healpy")
hp.npix2nside = lambda n: int(np.sqrt(n / 12))
hp.reorder = lambda v, inp=None, out=None: v
hp.nside2order = lambda nside: int(np.log2(nside))
hp.pix2ang = lambda nside, ipix, nest=True, lonlat=True: ((ipix % 360).astype(float), ((ipix // 360) % 180 - 90).astype(float))
sys.modules["healpy"] = hp
from yaw.randoms import HealPixRandoms
mask = np.ones(12 * 4**2)
a = HealPixRandoms(mask, seed=7)(50)
b = HealPixRandoms(mask, seed=7)(50)
g = HealPixRandoms(mask, seed=7)
c1 = g(50); g.reseed(); c2 = g(50)
ok = np.array_equal(a, b) and np.array_equal(c1, c2)
print("same seed, same points:", np.array_equal(a, b), "| reseed reproduces:", np.array_equal(c1, c2))
if not ok:
    print("DEFECT: points are not reproducible by seed")
sys.exit(0 if ok else 1)
