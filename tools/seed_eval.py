#!/venv/bin/python
"""Evaluate every kept seeded change against every claimed check, on scratch copies of /repo/src (never on /repo):
which checks report a violation.  Writes the verdict into seeded/<id>/meta.json and seeded/catch_matrix.json."""
import json
import os
import shutil
import subprocess
import sys
import tempfile
from concurrent.futures import ThreadPoolExecutor

VERIF = os.path.dirname(os.path.dirname(os.path.abspath(__file__)))
PY = "/venv/bin/python"
PROPS = sorted(fn[:-3].upper() for fn in os.listdir(f"{VERIF}/yawsa/rules") if fn.startswith("c") and fn[1:3].isdigit() and fn.endswith(".py"))


def run(sid: str) -> tuple[str, dict]:
    base = f"{VERIF}/seeded/{sid}"
    tmp = tempfile.mkdtemp(prefix="yawsa_seed_")
    try:
        shutil.copytree("/repo/src", f"{tmp}/src", ignore=shutil.ignore_patterns("__pycache__", "*.pyc"))
        r = subprocess.run(["patch", "-p1", "-s", "--no-backup-if-mismatch", "-i", f"{base}/patch.diff"], cwd=tmp, capture_output=True, text=True)
        if r.returncode != 0:
            return sid, {"applies": False}
        fired = {}
        for p in PROPS:
            c = subprocess.run([PY, "-m", "yawsa", "check", p, "--root", tmp, "--no-evidence"], cwd=VERIF, capture_output=True, text=True, env={**os.environ, "YAWSA_SELFTEST_CHILD": "1"})
            if c.returncode == 1:
                fired[p] = sorted({ln.split("]")[0][1:] for ln in c.stdout.splitlines() if ln.startswith("[C")})
            elif c.returncode == 2:
                fired[p] = ["ANALYSIS-ERROR: " + next((ln for ln in c.stdout.splitlines() if ln.startswith("ANALYSIS-ERROR")), "")[:160]]
        return sid, {"applies": True, "fired": fired}
    finally:
        shutil.rmtree(tmp, ignore_errors=True)


def main() -> None:
    ids = sys.argv[1:] or sorted(d for d in os.listdir(f"{VERIF}/seeded") if os.path.isdir(f"{VERIF}/seeded/{d}"))
    with ThreadPoolExecutor(8) as ex:
        results = dict(ex.map(run, ids))
    table = {}
    mp = f"{VERIF}/seeded/catch_matrix.json"
    if os.path.exists(mp) and sys.argv[1:]:
        table = json.load(open(mp))
    for sid in ids:
        r = results[sid]
        table[sid] = r
        f = r.get("fired", {})
        verdict = "does not apply to the current tree" if not r.get("applies") else ("CAUGHT" if any(v and not v[0].startswith("ANALYSIS") for v in f.values()) else ("analysis-error only" if f else "MISSED"))
        print(f"{sid:8s} {verdict:20s} {json.dumps(f)[:200]}")
        meta = f"{VERIF}/seeded/{sid}/meta.json"
        if os.path.exists(meta):
            m = json.load(open(meta))
            if r.get("applies") or "checks_run" not in m:
                m["checks_run"] = {"command": "scratch copy of /repo/src + patch.diff; /venv/bin/python -m yawsa check <each property> --root <copy>", "fired": f, "verdict": verdict}
            json.dump(m, open(meta, "w"), indent=1)
    json.dump(table, open(mp, "w"), indent=1)


if __name__ == "__main__":
    main()
