"""Reproducers on the simulated MPI world (findings/demos/mpi_sim.py):
 #27  iter_unordered with max_workers=1 under MPI executes no task at all (empty results)
 #21  writer's wildcard receive can match the root's EndOfQueue before another rank's pending
      patch message when sends are eager (standard mode): records are lost
usage: /venv/bin/python findings/demos/c06_mpi.py <maxworkers|sentinel>     exit 1 = defect"""
import os, sys, tempfile, shutil
sys.path.insert(0, os.path.dirname(os.path.abspath(__file__)))
import mpi_sim
from mpi_sim import mpirun
import numpy as np, pandas as pd
import yaw
from yaw.utils import parallel
assert parallel.use_mpi()
case = sys.argv[1]
rc = 0

def square(x):
    return x * x

if case == "maxworkers":
    for size in (2, 3, 4):
        def job():
            return sorted(parallel.iter_unordered(square, range(11), max_workers=1))
        results, errors, deadlock = mpirun(size, job)
        got = results.get(0)
        print(f"world size {size}, max_workers=1: root received {len(got) if got is not None else None} of 11 results", "| errors:", errors or None, "| deadlock:", deadlock)
        if deadlock or errors or got != sorted(square(i) for i in range(11)):
            rc = 1
    if rc:
        print("DEFECT: with max_workers=1 no worker rank is active and all tasks are dropped silently")
elif case == "sentinel":
    NUM_PATCHES, NUM_RECORDS, CHUNKSIZE = 5, 1103, 250
    rng = np.random.default_rng(12345)
    data = pd.DataFrame(dict(ra=rng.uniform(0, 40, NUM_RECORDS), dec=rng.uniform(-20, 20, NUM_RECORDS), z=rng.uniform(0.1, 1, NUM_RECORDS), patch=np.arange(NUM_RECORDS) % NUM_PATCHES))
    tmp = tempfile.mkdtemp(prefix="yawdemo_")
    try:
        for size in (3, 4, 5):
            for sync in (True, False):
                for wildcard in ("lowest", "highest"):
                    cache = os.path.join(tmp, f"c_{size}_{sync}_{wildcard}")
                    def job():
                        cat = yaw.Catalog.from_dataframe(cache, data, ra_name="ra", dec_name="dec", redshift_name="z", patch_name="patch", chunksize=CHUNKSIZE, overwrite=True)
                        return (len(cat), int(sum(cat.get_num_records())))
                    results, errors, deadlock = mpirun(size, job, sync=sync, wildcard=wildcard)
                    label = f"size {size}, {'synchronous' if sync else 'eager'} sends, wildcard prefers {wildcard} rank"
                    if deadlock or errors:
                        print(label, "-> did not terminate cleanly:", deadlock or errors); rc = 1
                    elif results[0] != (NUM_PATCHES, NUM_RECORDS):
                        print(label, "-> root catalog (patches, records) =", results[0], "expected", (NUM_PATCHES, NUM_RECORDS)); rc = 1
                    else:
                        print(label, "-> ok")
    finally:
        shutil.rmtree(tmp, ignore_errors=True)
    if rc:
        print("DEFECT: records lost / no termination for a message interleaving the MPI standard permits")
sys.exit(rc)
