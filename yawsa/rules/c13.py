"""C13 — results are invariant under rotations, row order, patch labels and weight scale (the weight-scale clause).

Only ONE clause of the property is visible in the shape of the code and decided here: multiplying all weights of one
catalog by a positive constant leaves the normalised pair counts, the correlation estimates and the normalised n(z)
unchanged.  That holds exactly when every one of these quantities is *homogeneous of degree zero* in each catalog's
weights, which is a property of the expressions, not of the data:

R1 (= C01.R10) the sums of weights kept with the trees and handed on with the pair counts are of degree one in the
   weights that are counted; the counting kernel gets both weight arrays (pair counts are bilinear).
R2 the product of the two catalogs' sums of weights is bilinear, the patch sums / jackknife samples are linear in the
   array they sum, and the normalised counts divide a bilinear quantity by a bilinear one: degree zero.
R3 the estimators only combine degree-zero quantities (a sum of terms of different degree is not homogeneous), and the
   quantities they are fed with are the *normalised* counts.
R4 the normalised redshift histogram divides a degree-one quantity by its own integral: degree zero.

Not decided (relations between two complete runs, numerically): rotations, row order, patch relabelling, additivity of
raw counts under catalog splits.
"""

from __future__ import annotations

import ast

from .. import homog, symx
from ..model import AnalysisError, dotted, unparse, walk_no_nested
from .common import QUICK, calls_in, shared_rule

EXPLANATION = (
    "Homogeneity typing on /repo's current source (yawsa/homog.py): every expression over the symbolic store gets the "
    "vector of exponents by which it scales when the weights of catalog 1 / catalog 2 are multiplied by constants — sums "
    "need equal degrees, products add, quotients subtract, linear numpy maps (sum, einsum of one operand, tile, triu, "
    "casts, indexing) keep the degree, einsum of several operands adds. The rules require degree one for stored sums of "
    "weights, bilinearity for pair counts and for the product of the sums of weights, and degree ZERO for normalised "
    "counts, correlation estimates and the normalised n(z). This decides the weight-scale clause of C13 as a necessary "
    "and, for exact arithmetic, sufficient structural condition; rotations, row order, patch relabelling and additivity "
    "relate two numerical runs and are NOT decided."
    ' R5: angles computed from 3-vectors (from_3d) are of degree zero in the vector — mean() hands it un-normalised averages.'
)
ASSUMPTIONS = [
    "scipy KDTree.count_neighbors(weights=(w1, w2)) sums the products w1[i] * w2[j] over the counted pairs (bilinear)",
    "numpy: sum / nansum / einsum with one operand / tile / triu / astype / indexing are linear in the array; einsum with several operands is linear in each",
    "a quantity that is homogeneous of degree zero in the weights of a catalog does not change when these weights are multiplied by a positive constant (up to rounding)",
]

W1 = homog.Deg.of({"w1": 1})
W2 = homog.Deg.of({"w2": 1})
W12 = homog.Deg.of({"w1": 1, "w2": 1})
ZERO_DEG = homog.CONST


def rule_r1(prog, res) -> None:
    """stored sums of weights: degree one; counting kernel: bilinear (shared with C01.R10)"""
    from . import c01

    shared_rule(res, c01.rule_r10, "C01", "C01.R10", "C13.R1")


def _paths(prog, fi, public=()):
    return [p for p in symx.explore(prog, fi, inline=symx.inline_private_helpers(prog, public=set(public)), env={"on_root()": True}, skip_tests=("logger",)) if p.outcome == "return" and p.value is not None]


def _need(res, rule, fi, what, d, want, node, key):
    if isinstance(d, homog.Unknown_):
        raise AnalysisError(f"{rule}: cannot type {what} in {fi.short}: {d}")
    if d == want or (isinstance(d, homog.Zero)):
        res.ok(rule, res.site(fi, what), f"{d}")
    else:
        res.violation(
            rule,
            fi,
            node,
            f"{what} is {d}, required: {want} — "
            + ("the result changes when the weights of one catalog are multiplied by a constant" if want == ZERO_DEG else "it does not scale with the weights like the quantity it normalises / is combined with"),
            key_extra=key,
        )


def rule_r2(prog, res) -> None:
    """normalised counts are of degree zero: bilinear counts over a bilinear product of the sums of weights"""
    psw = prog.find_class("PatchedSumWeights")
    ga = psw.methods.get("get_array")
    if ga is None:
        raise AnalysisError("C13.R2: PatchedSumWeights.get_array vanished")
    res.touch(ga)

    def atom_sw(e):
        if isinstance(e, ast.Attribute) and isinstance(e.value, ast.Name) and e.value.id == "self":
            if e.attr == "sum_weights1":
                return W1
            if e.attr == "sum_weights2":
                return W2
            if e.attr in ("auto", "num_bins", "num_patches", "binning"):
                return homog.CONST
        return None

    n = 0
    for p in _paths(prog, ga):
        n += 1
        _need(res, "C13.R2", ga, f"product of the sums of weights [{p.cond_text()[:20]}]", homog.degree(p.value, atom_sw), W12, p.node or ga.node, "sum-weights-product")
    # patch sums and jackknife samples are linear in the array they sum
    sp = prog.func("BinwisePatchwiseArray.sample_patch_sum")
    res.touch(sp)
    X = homog.Deg.of({"x": 1})

    def atom_arr(e):
        if isinstance(e, ast.Call) and isinstance(e.func, ast.Attribute) and e.func.attr == "get_array":
            return X
        if isinstance(e, ast.Attribute) and isinstance(e.value, ast.Name) and e.value.id == "self" and e.attr in ("num_patches", "num_bins", "binning", "auto"):
            return homog.CONST
        return None

    for p in _paths(prog, sp, public={"get_array"}):
        ctor = [x for x in ast.walk(p.value) if isinstance(x, ast.Call) and len(x.args) >= 3]
        if not ctor:
            raise AnalysisError("C13.R2: SampledData(binning, data, samples) construction of sample_patch_sum not recognised")
        for label, a in (("patch sum", ctor[0].args[1]), ("jackknife samples of the patch sum", ctor[0].args[2])):
            n += 1
            _need(res, "C13.R2", sp, label, homog.degree(a, atom_arr), X, p.node or sp.node, "patch-sum-linear")
    # normalised counts
    nc = prog.find_class("NormalisedCounts")

    def atom_nc(e):
        # anything obtained from self.counts is bilinear in the two catalogs' weights, anything from self.sum_weights as well
        root = e
        seen_call = False
        while isinstance(root, (ast.Attribute, ast.Call, ast.Subscript)):
            if isinstance(root, ast.Call):
                seen_call = True
                root = root.func
            elif isinstance(root, ast.Subscript):
                root = root.value
            else:
                if isinstance(root.value, ast.Name) and root.value.id == "self" and root.attr in ("counts", "sum_weights"):
                    return W12 if (seen_call or root is not e) else None
                root = root.value
        if isinstance(e, ast.Attribute) and isinstance(e.value, ast.Name) and e.value.id == "self" and e.attr in ("binning", "auto", "num_bins", "num_patches"):
            return homog.CONST
        return None

    for mname in ("sample_patch_sum", "get_array"):
        m = nc.methods.get(mname)
        if m is None:
            raise AnalysisError(f"C13.R2: NormalisedCounts.{mname} vanished")
        res.touch(m)
        for p in _paths(prog, m, public={"sample_patch_sum", "get_array"}):
            v = p.value
            ctor = [x for x in ast.walk(v) if isinstance(x, ast.Call) and (dotted(x.func) or "").split(".")[-1] == "SampledData" and len(x.args) >= 3]
            targets = [("normalised counts", ctor[0].args[1]), ("jackknife samples of the normalised counts", ctor[0].args[2])] if ctor else [("normalised counts array", v)]
            for label, a in targets:
                n += 1
                _need(res, "C13.R2", m, f"{label} ({mname})", homog.degree(a, atom_nc), ZERO_DEG, p.node or m.node, f"normalised-not-degree-zero-{mname}")
    if n < 7:
        raise AnalysisError(f"C13.R2: only {n} quantities typed, minimum 7")


def rule_r3(prog, res) -> None:
    """estimators combine degree-zero quantities only, and are fed with the normalised counts"""
    n = 0
    ests = [f for f in prog.funcs if f.module.name.endswith("corrfunc") and f.parent is None and f.cls is None and any(isinstance(x, ast.BinOp) and isinstance(x.op, ast.Div) for x in walk_no_nested(f.node)) and {"dd"} <= set(f.param_names())]
    if len(ests) < 2:
        raise AnalysisError(f"C13.R3: only {len(ests)} estimator functions found (functions of corrfunc taking dd), minimum 2")
    for f in ests:
        res.touch(f)
        params = set(f.param_names())

        def atom(e, params=params):
            if isinstance(e, ast.Name) and e.id in params:
                return homog.CONST  # normalised pair counts (R2)
            return None

        for p in _paths(prog, f):
            n += 1
            _need(res, "C13.R3", f, f"estimator value [{p.cond_text()[:30]}]", homog.degree(p.value, atom), ZERO_DEG, p.node or f.node, f"estimator-{f.name}")
    # what the estimators are fed with: patch sums of the NormalisedCounts members themselves, never of their raw
    # `.counts` / `.sum_weights` parts (those are bilinear in the weights, and differently for DD, DR, RR)
    cf = prog.find_class("CorrFunc")
    sm = cf.methods.get("sample")
    if sm is None:
        raise AnalysisError("C13.R3: CorrFunc.sample vanished")
    res.touch(sm)
    fed = 0
    for p in symx.explore(prog, sm, inline=symx.inline_private_helpers(prog, public={"sample_patch_sum", "to_dict"}), env={"on_root()": True}, skip_tests=("logger",)):
        for ev in p.calls("sample_patch_sum"):
            fed += 1
            recv = symx.strip_wrappers(ev.expr.func.value) if isinstance(ev.expr.func, ast.Attribute) else None
            raw = recv is not None and any(isinstance(y, ast.Attribute) and y.attr in ("counts", "sum_weights") for y in ast.walk(recv))
            if raw:
                res.violation(
                    "C13.R3",
                    sm,
                    ev.node,
                    f"the estimator is fed with the patch sum of `{unparse(recv)[:50]}`, the raw (bilinear) part of the normalised counts: DD, DR and RR then scale differently with the catalogs' weights "
                    "and the estimate changes when the weights of one catalog are rescaled",
                    key_extra="estimator-fed-raw-counts",
                )
            else:
                res.ok("C13.R3", res.site(sm, unparse(ev.expr)[:50]), "patch sum of the normalised counts member")
    if fed == 0:
        raise AnalysisError("C13.R3: CorrFunc.sample no longer sums its members with sample_patch_sum (idiom not recognised)")
    if n < 2:
        raise AnalysisError("C13.R3: no estimator path typed")


def rule_r4(prog, res) -> None:
    """the normalised redshift histogram is of degree zero in the weights"""
    hd = prog.find_class("HistData")
    nm = hd.methods.get("normalised")
    if nm is None:
        raise AnalysisError("C13.R4: HistData.normalised vanished")
    res.touch(nm)
    W = homog.Deg.of({"w": 1})

    def atom(e):
        if isinstance(e, ast.Attribute) and isinstance(e.value, ast.Name) and e.value.id == "self":
            if e.attr in ("data", "samples"):
                return W  # weighted counts per bin
            if e.attr in ("num_bins", "num_samples"):
                return homog.CONST
        if isinstance(e, ast.Attribute) and unparse(e).startswith("self.binning"):
            return homog.CONST
        if isinstance(e, ast.Call) and unparse(e.func).startswith("self.binning"):
            return homog.CONST
        return None

    n = 0
    for p in _paths(prog, nm):
        v = p.value
        if not (isinstance(v, ast.Call) and len(v.args) >= 3):
            raise AnalysisError("C13.R4: HistData.normalised does not return type(self)(binning, data, samples)")
        for label, a in (("normalised histogram", v.args[1]), ("jackknife samples of the normalised histogram", v.args[2])):
            n += 1
            _need(res, "C13.R4", nm, label, homog.degree(a, atom), ZERO_DEG, p.node or nm.node, "hist-normalised-degree")
    # the histogram itself is weighted: degree one (np.histogram(weights=<the patch's weights>))
    hist = next((f for f in prog.funcs if f.module is hd.module and f.cls is None and any((dotted(c.func) or "").split(".")[-1] in ("histogram", "bincount") for c in calls_in(f))), None)
    if hist is not None:
        res.touch(hist)
        for c in calls_in(hist):
            if (dotted(c.func) or "").split(".")[-1] in ("histogram", "bincount"):
                w = next((k.value for k in c.keywords if k.arg == "weights"), None)
                n += 1
                if w is None:
                    res.violation("C13.R4", hist, c, "the redshift histogram ignores the weights of the catalog (histogram / bincount without weights=)", key_extra="hist-unweighted")
                else:
                    res.ok("C13.R4", res.site(hist, "histogram weights"), f"weighted by {unparse(w)[:40]}")
    if n < 2:
        raise AnalysisError("C13.R4: nothing typed")


def rule_r5(prog, res) -> None:
    """sky coordinates computed from 3-vectors do not depend on the length of the vector (degree zero in the vector):
    the library hands `from_3d` averages of unit vectors (patch centres through `mean()`), whose length is below one —
    an angle taken from an un-normalised component moves every data-derived patch centre towards the equator and with
    it patch membership, jackknife samples and covariance, while totals stay put"""
    ac = prog.find_class("AngularCoordinates")
    f3 = ac.methods.get("from_3d")
    if f3 is None:
        raise AnalysisError("C13.R5: AngularCoordinates.from_3d vanished")
    res.touch(f3)
    vec = next((q for q in f3.param_names() if q not in ("cls", "self")), None)
    if vec is None:
        raise AnalysisError("C13.R5: from_3d has no vector parameter")

    def atom(e):
        if isinstance(e, ast.Name) and e.id == vec:
            return homog.Deg.of({vec: 1})
        if isinstance(e, ast.Call) and isinstance(e.func, ast.Name) and e.func.id in (symx.LOOP, symx.ELEM) and e.args:
            return homog.degree(e.args[0], atom)
        return None

    n = 0
    for p in symx.explore(prog, f3, inline=symx.inline_private_helpers(prog)):
        if p.outcome != "return" or p.value is None:
            continue
        v = p.value
        while isinstance(v, ast.Call) and (isinstance(v.func, ast.Name) and v.func.id in ("cls", ac.name) or (isinstance(v.func, ast.Call) and isinstance(v.func.func, ast.Name) and v.func.func.id == "type")) and v.args:
            v = v.args[0]
        d = homog.degree(v, atom)
        n += 1
        if isinstance(d, homog.Deg) and not d.exps or isinstance(d, homog.Zero):
            res.ok("C13.R5", res.site(f3, "scale-free"), "the returned angles are of degree zero in the input vector")
        elif isinstance(d, homog.Unknown_):
            raise AnalysisError(f"C13.R5: degree of the angles returned by from_3d cannot be typed ({d})")
        else:
            res.violation("C13.R5", f3, p.node or f3.node, f"the angles returned by from_3d depend on the length of the vector ({d}): mean() passes the un-normalised average of unit vectors, so every patch centre computed from data is shifted in declination", key_extra="from-3d-not-scale-free")
    if n == 0:
        raise AnalysisError("C13.R5: from_3d has no returning path")
    # the caller that relies on it: mean() averages unit vectors and converts the (shorter) average back
    mean = ac.methods.get("mean")
    if mean is not None:
        res.touch(mean)
        if any(f3 in prog.resolve_call(mean, c).funcs() for c in calls_in(mean)):
            res.ok("C13.R5", res.site(mean), "mean() converts the average vector through from_3d", nontrivial=False)


RULES = [
    ("C13.R1", rule_r1, QUICK),
    ("C13.R2", rule_r2, QUICK),
    ("C13.R3", rule_r3, QUICK),
    ("C13.R4", rule_r4, QUICK),
    ("C13.R5", rule_r5, QUICK),
]
