#!/venv/bin/python
"""Development helper: apply each mechanical, behaviour-preserving transformation of yawsa/equiv.py to a scratch copy of
/repo/src, confirm the transformed package still passes the 111 tests (dev-time sanity of the transformation itself),
run every claimed check on it and report alarms.   equiv_eval.py [--tests] [--per-module] [transform …]"""
import os
import shutil
import subprocess
import sys
import tempfile
from concurrent.futures import ThreadPoolExecutor

VERIF = os.path.dirname(os.path.dirname(os.path.abspath(__file__)))
sys.path.insert(0, VERIF)
from yawsa import equiv  # noqa: E402
from yawsa.selftest import ALL_PROPS  # noqa: E402

PY = "/venv/bin/python"


def one(job):
    name, module, tests = job
    tmp = tempfile.mkdtemp(prefix="yawsa_equiv_")
    try:
        shutil.copytree("/repo/src", os.path.join(tmp, "src"), ignore=shutil.ignore_patterns("__pycache__", "*.pyc"))
        n = equiv.apply(os.path.join(tmp, "src"), name, module)
        if n == 0 and name != "reformat":
            return (name, module, 0, "no site", [])
        tres = ""
        if tests:
            r = subprocess.run(f"{PY} -m pytest -q -p no:cacheprovider -x 2>&1 | tail -1", shell=True, cwd="/repo", capture_output=True, text=True, env={**os.environ, "PYTHONPATH": os.path.join(tmp, "src"), "YAW_NUM_THREADS": "1"})
            tres = r.stdout.strip()
        bad = []
        for p in ALL_PROPS:
            r = subprocess.run([PY, "-m", "yawsa", "check", p, "--root", tmp, "--no-evidence"], cwd=VERIF, capture_output=True, text=True)
            if r.returncode != 0:
                bad.append(p + ": " + " | ".join(l for l in r.stdout.splitlines() if l.startswith(("[", "ANALYSIS")))[:400])
        return (name, module, n, tres, bad)
    finally:
        shutil.rmtree(tmp, ignore_errors=True)


def main():
    args = [a for a in sys.argv[1:] if not a.startswith("--")]
    tests = "--tests" in sys.argv
    per_module = "--per-module" in sys.argv
    names = args or list(equiv.TRANSFORMS)
    jobs = []
    for nm in names:
        if per_module:
            for dp, _dn, fns in os.walk("/repo/src/yaw"):
                for fn in fns:
                    if fn.endswith(".py") and fn != "_version.py":
                        jobs.append((nm, os.path.relpath(os.path.join(dp, fn), "/repo/src"), tests))
        else:
            jobs.append((nm, None, tests))
    with ThreadPoolExecutor(max_workers=int(os.environ.get("JOBS", "6"))) as ex:
        for name, module, n, tres, bad in ex.map(one, jobs):
            if per_module and not bad and tres in ("", "no site"):
                continue
            print(f"{'FAIL' if bad else 'ok  '} {name:14s} {module or '*':40s} sites={n} {tres}")
            for b in bad:
                print("      ", b)


main()
