"""Reproducers for findings #8 (unbound `weights` when no object is inside the binning) and
#9 (histogram uses left-closed inner edges for closed=right).  exit 1 = defect"""
import os, sys, tempfile, shutil
os.environ["YAW_NUM_THREADS"] = "1"
import numpy as np, pandas as pd
tmp = tempfile.mkdtemp(prefix="yawdemo_")
rc = 0
try:
    from yaw import Catalog, AngularCoordinates, Configuration
    from yaw.redshifts import HistData
    from yaw.catalog.trees import BinnedTrees
    edges = np.array([0.1, 0.4, 0.7, 1.0])
    z = np.array([0.1, 0.4, 0.4, 0.7, 1.0, 0.25, 0.55, 0.05, 1.2])
    df = pd.DataFrame(dict(ra=np.linspace(1, 9, len(z)), dec=np.zeros(len(z)), z=z))
    centers = AngularCoordinates(np.deg2rad([[5.0, 0.0]]))
    cat = Catalog.from_dataframe(os.path.join(tmp, "c"), df, ra_name="ra", dec_name="dec", redshift_name="z", patch_centers=centers)
    for closed in ("right", "left"):
        cfg = Configuration.create(rmin=100, rmax=1000, edges=edges, closed=closed)
        h = HistData.from_catalog(cat, cfg).data
        cat.build_trees(edges, closed=closed, force=True)
        t = np.array([tr.num_records for tr in BinnedTrees(cat[0]).trees], dtype=float)
        if closed == "right":
            exp = np.array([np.sum((z > lo) & (z <= hi)) for lo, hi in zip(edges[:-1], edges[1:])], dtype=float)
        else:
            exp = np.array([np.sum((z >= lo) & (z < hi)) for lo, hi in zip(edges[:-1], edges[1:])], dtype=float)
        print(f"closed={closed}: expected {exp}, trees {t}, histogram {h}")
        if not np.array_equal(h, exp) or not np.array_equal(t, exp):
            print("DEFECT: bin membership differs from the closed-side rule"); rc = 1
    # patch without any object inside the binning
    try:
        cat.build_trees(np.array([2.0, 3.0, 4.0]), closed="right", force=True)
        t = [tr.num_records for tr in BinnedTrees(cat[0]).trees]
        print("empty binning ->", t)
    except UnboundLocalError as e:
        print("DEFECT: empty bins raise", type(e).__name__, e); rc = 1
finally:
    shutil.rmtree(tmp, ignore_errors=True)
sys.exit(rc)
