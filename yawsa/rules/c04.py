"""C04 — correlation estimators and the n(z) formula are applied as documented.

R1 the return expressions of the estimators, the n(z) formula and the normalisations are
   algebraically equal (polynomial/rational normal form) to the documented formulas on every
   None-default path.
R2 the estimator is selected exactly by the presence of RR; counts are passed by kind.
R3 twin path: value and jackknife samples are computed by the same formula (shared with C03.R1).
R4 autocorrelation normalisation: upper triangle with halved diagonal.
"""

from __future__ import annotations

import ast
import re

from ..dataflow import all_def_values, depends_on
from ..effects import Unknown, ceval
from ..model import AnalysisError, FuncInfo, dotted, norm_stmt, unparse, walk_no_nested
from ..norm import NotAffine, Rational, _atom, _const, poly, sym_exec
from .common import QUICK, calls_in, kwarg

EXPLANATION = (
    "Static canonicalisation on /repo's current source (no evaluation of numbers): the return expressions of "
    "landy_szalay / davis_peebles are symbolically evaluated along every path through their None-defaults and "
    "brought into a polynomial/rational normal form, which must equal the normal form of (DD-DR-RD+RR)/RR (RD:=DR when "
    "absent), DD/DR-1 and DD/RD-1; RedshiftData.from_corrdata must normalise to w_sp / sqrt(dz^2 w_ss w_pp) with the "
    "absent autocorrelations bound to the constant 1 (atoms are named by provenance, not by variable name); "
    "normalised() must have the shape X / nansum(dz X) for one and the same X; NormalisedCounts.sample_patch_sum "
    "must be counts / sum_weights. Any algebraically equivalent rewrite passes. R3 compares the expression that "
    "produces `samples` with the one that produces `data` under the def-use renaming data<->samples at every "
    "(data, samples) construction site. The identity sum(upper triangle) = 1/2 (sum w)^2 is NOT decided."
)
ASSUMPTIONS = [
    "commutative-ring identities of +, -, *, / on numpy arrays (broadcasting helpers tile/reshape/newaxis are transparent)",
    "sqrt and nansum are uninterpreted functions of their canonical argument",
]


def _paths(fn: ast.FunctionDef, rename=None):
    try:
        return list(sym_exec(fn.body, rename=rename))
    except NotAffine as err:
        raise AnalysisError(f"C04: cannot symbolically evaluate {fn.name} ({err})")


def _R(txt: str) -> Rational:
    return poly(ast.parse(txt, mode="eval").body)


def _truth(conds, env) -> bool:
    """is this path taken under the partial environment (names None / 'SOME')?"""
    for t, pol in conds:
        try:
            v = bool(ceval(ast.parse(t, mode="eval").body, env))
        except Unknown:
            continue
        if v != pol:
            return False
    return True


def rule_r1(prog, res) -> None:
    """formula normal forms"""
    from ..norm import _poly_env, uf_atom, uf_inner

    ls, dp = prog.func("landy_szalay"), prog.func("davis_peebles")
    cases = [
        (ls, {"rd": None}, "(dd - dr - dr + rr) / rr", "LS without RD: (DD - 2 DR + RR)/RR"),
        (ls, {"rd": "SOME"}, "(dd - dr - rd + rr) / rr", "LS: (DD - DR - RD + RR)/RR"),
        (dp, {"rd": None, "dr": "SOME"}, "dd / dr - 1", "DP: DD/DR - 1"),
        (dp, {"rd": "SOME", "dr": None}, "dd / rd - 1", "DP: DD/RD - 1"),
        (dp, {"rd": "SOME", "dr": "SOME"}, "dd / rd - 1", "DP with both: DD/RD - 1"),
    ]
    for f, env, want, label in cases:
        res.touch(f)
        got = None
        for conds, e, ret in _paths(f.node):
            if ret is None or not _truth(conds, env):
                continue
            got = _poly_env(ret, e, lambda t: t)
        if got is None:
            res.violation("C04.R1", f, f.node, f"{label}: no return path for {env}", key_extra=f"{f.name}-{label[:12]}-nopath")
        elif got.equals(_R(want)):
            res.ok("C04.R1", res.site(f, label), f"normal form equals {want}")
        else:
            res.violation("C04.R1", f, f.node, f"{label}: the returned expression normalises to {got.canon()}, documented is {want}", key_extra=f"{f.name}-{'-'.join(f'{k}{v}' for k, v in env.items())}")
    # n(z) from correlation data: atoms named by provenance
    fc = prog.func("RedshiftData.from_corrdata")
    res.touch(fc)
    fn = fc.node
    params = fc.param_names()[1:4]
    cross, ref, unk = params

    # decided on the symbolic store: for every combination of given / absent autocorrelations the two arguments
    # of the constructor are written in terms of <param>.data / <param>.samples / <cross>.binning.dz and compared
    # (as rational normal forms) with w_sp / sqrt(dz^2 w_ss w_pp), an absent autocorrelation being the constant 1
    from .. import symx

    def role_for(member: str):
        def role(text: str) -> str:
            for pname, r in ((ref, "SS"), (unk, "PP"), (cross, "SP")):
                if text == f"{pname}.{member}":
                    return r
                if text in (f"{pname}.data", f"{pname}.samples"):
                    return f"{r}.{text.rsplit('.', 1)[1]}!"  # the other member of the (data, samples) pair
            if re.fullmatch(rf"{re.escape(cross)}\.(binning\.)?dz", text):
                return "DZ"
            return text

        return role

    n_cases = 0
    for has_ref in (True, False):
        for has_unk in (True, False):
            env = {ref: "SOME" if has_ref else None, unk: "SOME" if has_unk else None, "on_root()": True}
            paths = [p for p in symx.explore(prog, fc, env=env, inline=symx.inline_private_helpers(prog), skip_tests=("logger",)) if p.outcome == "return"]
            ctors = [ev for p in paths for ev in p.calls() if isinstance(ev.node.func, ast.Name) and ev.node.func.id == "cls"]
            if not ctors or any(len(ev.expr.args) < 3 for ev in ctors):
                raise AnalysisError("C04.R1: RedshiftData.from_corrdata construction not recognised")
            ss = Rational(_atom("SS")) if has_ref else Rational(_const(1))
            pp = Rational(_atom("PP")) if has_unk else Rational(_const(1))
            want = Rational(_atom("SP")) / Rational(uf_atom("sqrt", Rational(_atom("DZ")) * Rational(_atom("DZ")) * ss * pp))
            label = f"ref {'given' if has_ref else 'absent'}, unk {'given' if has_unk else 'absent'}"
            for ev in ctors:
                for which, arg, member in (("value", ev.expr.args[1], "data"), ("samples", ev.expr.args[2], "samples")):
                    n_cases += 1
                    got = poly(arg, None, role_for(member))
                    if got.equals(want):
                        res.ok("C04.R1", res.site(fc, f"n(z) {which} [{label}]"), "normalises to w_sp / sqrt(dz^2 * w_ss * w_pp)")
                    else:
                        res.violation("C04.R1", fc, ev.node, f"n(z) {which} ({label}) normalises to {got.canon()}, documented is w_sp / sqrt(dz^2 w_ss w_pp) built from the .{member} of each input", key_extra=f"nz-formula-{which}")
    if n_cases < 8:
        raise AnalysisError(f"C04.R1: only {n_cases} (case, argument) pairs of the n(z) formula examined, expected 8")
    # normalised(): X / nansum(dz * X)
    for cname in ("HistData", "RedshiftData"):
        m = prog.func(f"{cname}.normalised")
        res.touch(m)
        found = False
        tparam = next((q for q in m.param_names() if "target" in q), None)
        # without a target distribution (the fit to a target is a relative normalisation, not this formula)
        npaths = [p for p in symx.explore(prog, m, env={tparam: None, "on_root()": True} if tparam else {"on_root()": True}, inline=symx.inline_private_helpers(prog), skip_tests=("logger",)) if p.outcome == "return" and p.value is not None]
        for p_ in npaths:
            ret = p_.node or m.node
            c = [x for x in ast.walk(p_.value) if isinstance(x, ast.Call) and len(x.args) >= 3]
            if not c:
                continue
            ren = lambda t: "DZ" if t in ("self.binning.dz", "dz") else t  # noqa: E731
            d, s = poly(c[0].args[1], None, ren), poly(c[0].args[2], None, ren)
            found = True
            for which, val, atom in (("value", d, "self.data"), ("samples", s, "self.samples")):
                # val must be X / nansum[DZ * X_data] with X built from `atom`
                num, den = val.num, val.den
                ns = [a for m_ in list(num) + list(den) for a, _ in m_ if a.startswith("nansum#")]
                if len(set(ns)) != 1:
                    res.violation("C04.R1", m, ret, f"{cname}.normalised ({which}) is not of the form X / nansum(dz X): {val.canon()}", key_extra=f"{cname}-normalised-shape-{which}")
                    continue
                nsum = ns[0]
                Xd = d * Rational(_atom(nsum))
                inner = uf_inner(nsum)
                # the value itself must be X / nansum, i.e. multiplying by nansum removes it
                X = val * Rational(_atom(nsum))
                free = X.equals(Rational({k: v for k, v in X.num.items() if not any(a == nsum for a, _ in k)}, {k: v for k, v in X.den.items() if not any(a == nsum for a, _ in k)})) if X.num else False
                if inner is not None and inner.equals(Rational(_atom("DZ")) * Xd) and d.den and any(any(a == nsum for a, _ in k) for k in d.den):
                    res.ok("C04.R1", res.site(m, f"normalised {which}"), "X / nansum(dz * X_value): the integral over the binning is 1")
                else:
                    res.violation("C04.R1", m, ret, f"{cname}.normalised ({which}): the norm is {nsum}, expected nansum of dz times the un-normalised value", key_extra=f"{cname}-normalised-norm-{which}")
        if not found:
            raise AnalysisError(f"C04.R1: {cname}.normalised return not recognised")
    # NormalisedCounts.sample_patch_sum = counts / sum_weights
    sp = prog.func("NormalisedCounts.sample_patch_sum")
    res.touch(sp)
    ok = src_ok = False
    spaths = [p for p in symx.explore(prog, sp, inline=symx.inline_private_helpers(prog, public={"sample_patch_sum"})) if p.outcome == "return" and p.value is not None]
    for p_ in spaths:
        c = [x for x in ast.walk(p_.value) if isinstance(x, ast.Call) and len(x.args) >= 3]
        if not c:
            continue
        C_, W_ = "self.counts.sample_patch_sum()", "self.sum_weights.sample_patch_sum()"
        d, s_ = poly(c[0].args[1], None, lambda t: t), poly(c[0].args[2], None, lambda t: t)
        ok = d.equals(Rational(_atom(f"{C_}.data")) / Rational(_atom(f"{W_}.data"))) and s_.equals(Rational(_atom(f"{C_}.samples")) / Rational(_atom(f"{W_}.samples")))
        src_ok = ok
    if ok and src_ok:
        res.ok("C04.R1", res.site(sp), "normalised counts = resampled pair counts / resampled product of weight sums")
    else:
        res.violation("C04.R1", sp, sp.node, "normalised pair counts are not (sum of counts) / (sum of weight products) for value and samples", key_extra="normalised-counts-formula")


def rule_r2(prog, res) -> None:
    """estimator selection and keyword passing (decided on the symbolic store of CorrFunc.sample: which function
    is applied to the counts with / without random-random counts, and how the counts dictionary is keyed)"""
    from .. import symx

    sm = prog.func("CorrFunc.sample")
    res.touch(sm)
    pol = symx.inline_private_helpers(prog, public={"to_dict", "sample_patch_sum", "landy_szalay", "davis_peebles"})
    EST = ("landy_szalay", "davis_peebles")

    def estimators(has_rr: bool):
        facts = {"self.rr is not None": has_rr, "self.rr is None": not has_rr}
        paths = [p for p in symx.explore(prog, sm, facts=facts, inline=pol, skip_tests=("logger",), env={"on_root()": True}) if p.outcome == "return"]
        calls = [ev for p in paths for ev in p.calls() if ev.callee in EST or any(k.arg is None for k in ev.expr.keywords) and not ev.expr.args and isinstance(ev.node.func, ast.Name)]
        return paths, calls

    picked = {}
    all_calls = []
    for has_rr in (True, False):
        paths, calls = estimators(has_rr)
        if not calls:
            raise AnalysisError("C04.R2: estimator selection not recognised (no estimator(**counts) call on the explored paths)")
        picked[has_rr] = sorted({ev.callee for ev in calls})
        all_calls.extend(calls)
    undecided = [names for names in picked.values() if len(names) != 1]
    if undecided:
        res.violation("C04.R2", sm, all_calls[0].node, f"the estimator is not selected by the presence of the random-random counts alone (with RR: {picked[True]}, without: {picked[False]})", key_extra="estimator-selection-criterion")
        return
    if picked[True] == ["landy_szalay"] and picked[False] == ["davis_peebles"]:
        res.ok("C04.R2", res.site(sm, "estimator"), "Landy-Szalay exactly when random-random counts exist, Davis-Peebles otherwise")
    else:
        res.violation("C04.R2", sm, all_calls[0].node, f"with RR the estimator is {picked[True][0]}, without RR it is {picked[False][0]}", key_extra="estimator-selection")

    # counts are collected per kind under their own key and passed by keyword
    def keyed_by_kind(x, depth=0) -> bool:
        """x is a dictionary whose keys are the keys of self.to_dict()"""
        if depth > 4:
            return False
        x = symx.strip_wrappers(x)
        if isinstance(x, ast.Call) and isinstance(x.func, ast.Attribute) and x.func.attr == "to_dict":
            return True
        if isinstance(x, ast.Call) and isinstance(x.func, ast.Name) and x.func.id == symx.SETITEM:
            base, key, _val = x.args
            k = key
            ok_key = isinstance(k, ast.Subscript) and isinstance(k.slice, ast.Constant) and k.slice.value == 0 and isinstance(k.value, ast.Call) and getattr(k.value.func, "id", "") == symx.ELEM and items_of_kinds(k.value.args[0], depth + 1)
            base = symx.strip_wrappers(base)
            base_ok = (isinstance(base, ast.Dict) and not base.keys) or keyed_by_kind(base, depth + 1)
            return bool(ok_key and base_ok)
        if isinstance(x, ast.DictComp) and len(x.generators) == 1:
            g = x.generators[0]
            t0 = g.target.elts[0] if isinstance(g.target, ast.Tuple) and g.target.elts else g.target
            return isinstance(x.key, ast.Name) and isinstance(t0, ast.Name) and x.key.id == t0.id and not g.ifs and items_of_kinds(g.iter, depth + 1)
        return False

    def items_of_kinds(it, depth) -> bool:
        it = symx.strip_wrappers(it)
        if isinstance(it, ast.Call) and isinstance(it.func, ast.Attribute) and it.func.attr == "items":
            return keyed_by_kind(it.func.value, depth)
        return False

    star = all(len(ev.expr.keywords) == 1 and ev.expr.keywords[0].arg is None and not ev.expr.args for ev in all_calls)
    sites = {id(ev.node) for ev in all_calls}
    keyed = star and all(keyed_by_kind(ev.expr.keywords[0].value) for ev in all_calls)
    if keyed and len(sites) == 2:
        res.ok("C04.R2", res.site(sm, "keywords"), "pair counts are stored under their kind (dd/dr/rd/rr) and handed to the estimator by keyword")
    else:
        res.violation("C04.R2", sm, sm.node, "pair counts are not handed to the estimator by their kind", key_extra="estimator-keywords")
    # estimator signatures accept exactly the kinds that can occur
    for f, need in ((prog.func("landy_szalay"), {"dd", "dr", "rd", "rr"}), (prog.func("davis_peebles"), {"dd", "dr", "rd"})):
        kw = {a.arg for a in f.node.args.kwonlyargs}
        if kw == need:
            res.ok("C04.R2", res.site(f, "signature"), f"accepts {sorted(kw)}")
        else:
            res.violation("C04.R2", f, f.node, f"{f.name} accepts {sorted(kw)}, needed {sorted(need)}", key_extra=f"{f.name}-signature")


TWIN_RENAMES = [(r"\.samples\b", ".data"), (r"_samples\b", "_data"), (r"_samp\b", "_data"), (r"\bsamples\b", "data"), (r"counts_samples", "counts_values"), (r"counts_data", "counts_values")]


def _twin_norm(text: str) -> str:
    if "(" in text:
        return text
    for a, b in TWIN_RENAMES:
        text = re.sub(a, b, text)
    return text


def _twin_text(text: str) -> str:
    """samples -> data on member accesses: maps the samples expression into the vocabulary of the value expression"""
    return re.sub(r"\.samples\b", ".data", text)


def twin_path(prog, res, rule: str) -> int:
    """value and samples are produced by the same formula at every construction site.

    Decided on the symbolic store: at every construction T(binning, D, S) of a sampled container the two
    arguments are written in terms of the function's inputs (locals, helper functions and closures are
    substituted away).  A site whose S reads the `.samples` of an input transforms existing samples: there
    S with every `.samples` read as `.data` must equal D (compared as rational normal forms, so the order of
    terms and named intermediate steps do not matter), and outside scalar reductions S must not read a `.data`."""
    from .. import symx

    n = 0
    targets = {"SampledData", "CorrData", "RedshiftData", "HistData"}
    for fi in prog.funcs:
        if not fi.module.name.startswith(("yaw.correlation", "yaw.redshifts")):
            continue
        if fi.parent is not None:
            continue  # closures are explored as part of the function that defines them
        sites = []
        for c in calls_in(fi):
            f = c.func
            is_ctor = False
            if isinstance(f, ast.Name) and (f.id in targets or (f.id == "cls" and fi.cls is not None and fi.cls.name in targets)):
                is_ctor = True
            if isinstance(f, ast.Call) and isinstance(f.func, ast.Name) and f.func.id == "type" and fi.cls is not None and (fi.cls.name in targets or any(getattr(b_, "name", "") in targets for b_ in prog.mro(fi.cls))):
                is_ctor = True
            if is_ctor and len(c.args) >= 3:
                sites.append(c)
        if not sites:
            continue
        try:
            paths = symx.explore(prog, fi, inline=symx.inline_private_helpers(prog, public={"to_dict", "sample_patch_sum", "landy_szalay", "davis_peebles"}), skip_tests=("logger",), env={"on_root()": True})
        except symx.TooManyPaths as err:
            raise AnalysisError(f"{rule}: {err}") from None
        per_site: dict = {}
        for p in paths:
            for ev in p.calls():
                if ev.node in sites and len(ev.expr.args) >= 3:
                    per_site.setdefault(id(ev.node), []).append(ev)
        for c in sites:
            evs = per_site.get(id(c), [])
            if not evs:
                raise AnalysisError(f"{rule}: construction `{norm_stmt(c)[:50]}` in {fi.short} is not reached by any explored path")
            reads_samples = any(
                symx.mentions(ev.expr.args[2], lambda y: isinstance(y, ast.Attribute) and y.attr == "samples") or symx.mentions(ev.expr.args[1], lambda y: isinstance(y, ast.Attribute) and y.attr == "data")
                for ev in evs
            )
            if not reads_samples:
                res.ok(rule, res.site(fi, norm_stmt(c)[:60]), "source of samples (resampling / loading), not a transformation of existing samples", nontrivial=False)
                continue
            n += 1
            res.touch(fi)
            bad = None
            for ev in evs:
                D, S = ev.expr.args[1], ev.expr.args[2]
                from ..norm import atoms_of

                # a scalar reduction (nansum, sum, mean) of the VALUE may legitimately scale the samples (normalisation)
                raw = atoms_of(poly(S, None, lambda t: t))
                mixed = sorted(t[-40:] for t in raw if "(" not in t and re.search(r"\.data$", t))
                if not mixed:
                    # call-shaped samples (estimator(**counts)): look into the arguments, outside scalar reductions / fits
                    OPAQUE = ("nansum", "sum", "mean", "nanmean", "median", "curve_fit")

                    def value_reads(e):
                        if isinstance(e, ast.Call) and (dotted(e.func) or unparse(e.func)).split(".")[-1] in OPAQUE:
                            return
                        if isinstance(e, ast.Attribute) and e.attr == "data" and isinstance(e.ctx, ast.Load):
                            yield unparse(e)[-40:]
                        for ch in ast.iter_child_nodes(e):
                            yield from value_reads(ch)

                    mixed = sorted(set(value_reads(S)))
                d, s_ = poly(D, None, lambda t: t), poly(S, None, _twin_text)
                if d.equals(s_) and not mixed:
                    continue
                bad = (ev, d, s_, mixed)
                break
            if bad is None:
                res.ok(rule, res.site(fi, norm_stmt(c)[:60]), f"samples expression equals the value expression under data->samples on every path ({len(evs)})")
            elif bad[3]:
                res.violation(rule, fi, c, f"the jackknife samples are computed from the VALUE of {bad[3]} instead of its samples: the samples do not vary with the left-out patch in that term", key_extra=f"twin-mixed-{fi.qualname}")
            else:
                res.violation(rule, fi, c, f"jackknife samples are computed as {bad[2].canon()[:120]} but the value as {bad[1].canon()[:120]}: value and samples follow different formulas", key_extra=f"twin-{fi.qualname}")
    return n


def rule_r3(prog, res) -> None:
    """twin path: value and samples computed identically"""
    n = twin_path(prog, res, "C04.R3")
    if n < 6:
        raise AnalysisError(f"C04.R3: only {n} (data, samples) construction sites found, minimum 6")


def rule_r4(prog, res) -> None:
    """autocorrelation normalisation: upper triangle, halved diagonal"""
    ga = prog.func("PatchedSumWeights.get_array")
    res.touch(ga)
    fn = ga.node
    first = [x for x in walk_no_nested(fn) if isinstance(x, ast.Assign) and isinstance(x.value, ast.Call) and (dotted(x.value.func) or "").endswith("einsum")]
    if not first or not (isinstance(first[0].value.args[0], ast.Constant) and first[0].value.args[0].value.replace(" ", "") == "bi,bj->bij"):
        res.violation("C04.R4", ga, fn, "weight products are not the outer product bi,bj->bij of the two weight-sum arrays", key_extra="outer-product")
    else:
        ops = [unparse(a) for a in first[0].value.args[1:]]
        if ops == ["self.sum_weights1", "self.sum_weights2"]:
            res.ok("C04.R4", res.site(ga, "outer product"), "array[b, i, j] = sum_weights1[b, i] * sum_weights2[b, j]")
        else:
            res.violation("C04.R4", ga, first[0], f"outer product is built from {ops}", key_extra="outer-product-operands")
    # autocorrelation arm, decided on the symbolic store: the paths that apply triu are taken exactly when the flag is
    # truthy (folded for True, False and a truthy / falsy value that is not a bool: the flag restored from an HDF5 file
    # is a numpy.bool_), they return triu(outer product) with the diagonal of that very array halved once in place
    from .. import symx

    paths = [p for p in symx.explore(prog, ga, inline=symx.inline_private_helpers(prog)) if p.outcome == "return" and p.value is not None]
    if not paths:
        raise AnalysisError("C04.R4: get_array has no returning path")
    flag_txts = sorted({unparse(y) for p in paths for t, _ in p.literals() for y in ast.walk(t) if isinstance(y, ast.Attribute) and y.attr == "auto"})
    if len(flag_txts) != 1:
        raise AnalysisError(f"C04.R4: `if self.auto` block of get_array not recognised (flag expressions {flag_txts})")
    flag_txt = flag_txts[0]

    def taken(p, v) -> bool:
        for t, pol in p.literals():
            if flag_txt not in unparse(t):
                continue
            try:
                if bool(ceval(t, {flag_txt: v})) != pol:
                    return False
            except Unknown as err:
                raise AnalysisError(f"C04.R4: cannot evaluate the autocorrelation test {unparse(t)} ({err})") from None
        return True

    def is_tri(p) -> bool:
        return any(isinstance(y, ast.Call) and (dotted(y.func) or "").split(".")[-1] in ("triu", "tril") for y in ast.walk(p.value))

    table = {}
    for v in (True, False, 1, 0):
        arms = {is_tri(p) for p in paths if taken(p, v)}
        if len(arms) != 1:
            raise AnalysisError(f"C04.R4: the autocorrelation arm of get_array is not determined by the flag alone (flag={v!r})")
        table[v] = arms.pop()
    tri_paths = [p for p in paths if is_tri(p)]
    if table != {True: True, False: False, 1: True, 0: False}:
        tests = sorted({unparse(t) for p in tri_paths for t, _ in p.literals() if flag_txt in unparse(t)})
        res.violation(
            "C04.R4",
            ga,
            (tri_paths[0].node if tri_paths else None) or fn,
            f"the autocorrelation branch is selected by `{tests[0] if tests else flag_txt}`, which is not the truth value of the flag (triangle applied for {table}; e.g. the numpy.bool_ "
            "read back from a file is truthy but not the object True): the lower triangle is then kept and every pair of patches is normalised twice",
            key_extra="auto-flag-identity-test",
        )
        return
    ok_tri = ok_half = bool(tri_paths)
    for p in tri_paths:
        v = p.value
        tri = [y for y in ast.walk(v) if isinstance(y, ast.Call) and (dotted(y.func) or "").split(".")[-1] in ("triu", "tril")]
        ok_tri = ok_tri and len(tri) == 1 and (dotted(tri[0].func) or "").endswith("triu") and not tri[0].keywords and len(tri[0].args) == 1 and unparse(v) == unparse(tri[0])
        halves = [ev for ev in p.events if ev.kind == "store" and isinstance(ev.expr, ast.Subscript) and isinstance(ev.value, ast.BinOp) and isinstance(ev.value.op, (ast.Mult, ast.Div)) and "bii->bi" in unparse(ev.expr).replace(" ", "")]
        good = False
        if len(halves) == 1:
            val = halves[0].value
            fac = val.right.value if isinstance(val.right, ast.Constant) else None
            if fac is not None:
                fac = fac if isinstance(val.op, ast.Mult) else 1 / fac
            view_of = [y for y in ast.walk(halves[0].expr) if isinstance(y, ast.Call) and (dotted(y.func) or "").endswith("einsum") and len(y.args) == 2]
            good = fac == 0.5 and bool(view_of) and bool(tri) and unparse(view_of[0].args[1]) == unparse(tri[0])
        ok_half = ok_half and good
    if ok_tri and ok_half:
        res.ok("C04.R4", res.site(ga, "auto"), "upper triangle incl. diagonal, diagonal halved once: sum = 1/2 (sum w)^2 structure")
    else:
        res.violation("C04.R4", ga, (tri_paths[0].node if tri_paths else None) or fn, f"autocorrelation normalisation is not `upper triangle with the diagonal halved` (triu={ok_tri}, diagonal*0.5={ok_half})", key_extra="auto-normalisation")


RULES = [
    ("C04.R1", rule_r1, QUICK),
    ("C04.R2", rule_r2, QUICK),
    ("C04.R3", rule_r3, QUICK),
    ("C04.R4", rule_r4, QUICK),
]
