"""C15 — configurations mean what their parameters say; modify equals create.

R1 totality of __eq__ / accessors / constructors of the configuration classes.
R2 the resolved cosmology reaches every bin-edge factory call.
R3 key protocol of modify -> from_dict (shared engine with C11.R3).
R4 create / modify signature agreement and same-name forwarding.
R5 immutability (Immutable.__setattr__ first in the MRO; object.__setattr__ only in __init__; modify stores nothing on self).
R6 validation is on every construction path (parse_binning, _set_scales, StrEnum conversions; strict comparisons).
R7 outer bin edges are exact copies of the requested limits.
"""

from __future__ import annotations

import ast

from ..cfg import cfg_of
from ..dataflow import all_def_values, depends_on, reaching_defs
from ..effects import Unknown, ceval
from ..model import AnalysisError, ClassInfo, FuncInfo, dotted, norm_stmt, unparse, walk_no_nested
from ..totality import bad_arguments, missing_attributes
from .c11 import dict_protocol
from .common import QUICK, argval, branch_nodes_of, calls_in, eq_covers_slots, kwarg, named_args, raise_dominated_by

EXPLANATION = (
    "Static analysis of the configuration classes on /repo's current source. R1: attribute/keyword existence on every "
    "method of the config classes (a miss is a definite AttributeError/TypeError, e.g. in __eq__). R2: reaching "
    "definitions decide that the cosmology= argument of every call into the binning configuration carries the "
    "'resolved' provenance (result of parse_cosmology or self.cosmology) and never the raw, possibly NotSet, parameter. "
    "R3: abstract key-set interpretation of modify -> from_dict. R4: keyword sets of create and modify agree, the "
    "combined configuration's equal the union of its parts, forwarding calls pass p=p. R5: effect analysis for "
    "immutability. R6: validation must-calls and strictness of the monotonicity comparisons. R7: exactness domain "
    "{copy-of-parameter, computed} for the first and last bin edge of every factory method."
    ' R8-R14 were added in later rounds (no stale memo, comoving inversion target, cosmology forwarding, no in-place update, NotSet truthiness, and R14: a from_dict arm selected by a key hands that value to the constructor).'
)
ASSUMPTIONS = [
    "numpy.linspace(a, b, n) returns a as first and b as last element exactly; results of log/exp/z_at_value round trips are not exact",
    "NotSet is falsy, so `cosmology or default` silently replaces it by the default cosmology",
    "StrEnum(value) raises ValueError for an unknown value",
]

CONFIG_MODULES = ("yaw.config.base", "yaw.config.binning", "yaw.config.scales", "yaw.config.combined", "yaw.cosmology", "yaw.binning")


def _config_classes(prog) -> list[ClassInfo]:
    return [prog.find_class(n) for n in ("BinningConfig", "ScalesConfig", "Configuration")]


def rule_r1(prog, res) -> None:
    """totality of the configuration classes' methods"""
    n = 0
    for ci in prog.classes:
        if ci.module.name not in CONFIG_MODULES:
            continue
        for m in ci.methods.values():
            n += 1
            res.touch(m)
            hits = missing_attributes(prog, m)
            probs = [(c, lab, pr) for c in calls_in(m) for lab, pr in bad_arguments(prog, m, c)]
            if not hits and not probs:
                res.ok("C15.R1", res.site(m), "all attribute reads on self/narrowed operands and all constructor keywords resolve", nontrivial=False)
            for x, recv, attr, lacking in hits:
                res.violation(
                    "C15.R1", m, x, f"{recv}.{attr} does not exist on {', '.join(c.name for c in lacking)}: {m.cls.name}.{m.name} raises AttributeError whenever it gets that far",
                    construct=f"{recv}.{attr}", key_extra=f"missing-attr-{attr}",
                )
            for c, lab, pr in probs:
                res.violation("C15.R1", m, c, f"call of {lab}: {pr}", key_extra=f"bad-call-{lab}-{pr[:30]}")
    if n < 40:
        raise AnalysisError(f"C15.R1: only {n} methods analysed, minimum 40")
    for ci in _config_classes(prog):
        exc = {"max_workers": "not a measurement parameter (frozen exception)"} if ci.name == "Configuration" else {}
        # config classes have no __slots__: use their annotated data attributes
        eq_covers_slots(prog, res, "C15.R1", ci, exceptions=exc)


def rule_r2(prog, res) -> None:
    """resolved cosmology reaches every bin-edge factory call"""
    conf = prog.find_class("Configuration")
    binc = prog.find_class("BinningConfig")
    n = 0
    from ..inline import inlined

    scopes = []
    for m0 in conf.methods.values():
        # same-module helpers through which the binning is built (e.g. a section parser) are expanded in place;
        # closures defined in the method (e.g. a parser bound to the cosmology) are analysed as part of it
        scopes.append(inlined(prog, m0, keep={"parse_cosmology"}))
        scopes.extend(f for f in m0.module.all_funcs if f.parent is m0)
    for m in scopes:
        cfg = None
        for call in calls_in(m):
            f = call.func
            tg = prog.resolve_call(m, call)
            into_binning = any(t.cls is binc and t.name in ("create", "modify", "from_dict") for t in tg.funcs())
            if not into_binning and isinstance(f, ast.Attribute) and f.attr in ("modify", "create", "from_dict") and "binning" in unparse(f.value).lower():
                into_binning = True
            if not into_binning:
                continue
            n += 1
            res.touch(m)
            arg = argval(prog, m, call, "cosmology")
            if arg is None:
                res.violation("C15.R2", m, call, "bin edges are (re)generated without passing the configuration's cosmology: comoving bins fall back to the default cosmology", key_extra=f"{m.name}-no-cosmology")
                continue
            ok, why = _resolved(prog, m, call, arg)
            if ok:
                res.ok("C15.R2", res.site(m, norm_stmt(call)[:50]), f"cosmology={unparse(arg)} is {why}")
            else:
                res.violation(
                    "C15.R2",
                    m,
                    call,
                    f"cosmology={unparse(arg)} handed to the binning is {why}: when the caller does not pass a cosmology the bin edges are recomputed "
                    "with the default cosmology instead of the one of this configuration",
                    key_extra=f"{m.name}-raw-cosmology",
                )
    if n < 3:
        raise AnalysisError(f"C15.R2: only {n} calls from Configuration into BinningConfig found, minimum 3")
    # modify(): the binning handed to the new configuration is recomputed (with the cosmology) on every path
    md = conf.methods["modify"]
    cfgm, INm = reaching_defs(md.node)
    ctor = [c for c in calls_in(md) if isinstance(c.func, ast.Call) and isinstance(c.func.func, ast.Name) and c.func.func.id == "type" or (isinstance(c.func, ast.Name) and c.func.id in ("cls", "Configuration"))]
    for c in ctor:
        b = kwarg(c, "binning")
        if not isinstance(b, ast.Name):
            continue
        for nd in cfgm.node_containing(c):
            for d in INm.get(nd.id, {}).get(b.id, set()):
                if d == -1:
                    continue
                v = getattr(cfgm.nodes[d].ast, "value", None)
                is_mod = isinstance(v, ast.Call) and isinstance(v.func, ast.Attribute) and v.func.attr in ("modify", "create", "from_dict") and argval(prog, md, v, "cosmology") is not None
                if not is_mod:
                    res.violation(
                        "C15.R2",
                        md,
                        cfgm.nodes[d].ast,
                        f"on some path Configuration.modify builds the new configuration from `{norm_stmt(cfgm.nodes[d].ast)[:60]}` without recomputing the binning with the (possibly new) cosmology: "
                        "modify(cosmology=…) of a comoving binning keeps bin edges of the old cosmology and differs from create(...)",
                        key_extra="modify-binning-not-recomputed",
                    )
                    break
            else:
                res.ok("C15.R2", res.site(md, "binning="), "every definition of the binning reaching the constructor is a binning.modify(..., cosmology=…) call")
    # BinningConfig passes the cosmology on to the factory
    for name in ("create", "from_dict", "modify"):
        m = binc.methods[name]
        res.touch(m)
        good = False
        for c in calls_in(m):
            if (dotted(c.func) or "").endswith("RedshiftBinningFactory") and c.args and isinstance(c.args[0], ast.Name) and c.args[0].id == "cosmology":
                good = True
            k = argval(prog, m, c, "cosmology")
            if k is not None and isinstance(k, ast.Name) and k.id == "cosmology":
                good = True
        if good:
            res.ok("C15.R2", res.site(m, "cosmology forwarded"), "the cosmology parameter is forwarded unchanged")
        else:
            res.violation("C15.R2", m, m.node, f"BinningConfig.{name} does not forward its cosmology parameter towards the bin-edge factory", key_extra=f"binning-{name}-drops-cosmology")


def _resolved(prog, m: FuncInfo, call: ast.Call, arg: ast.AST):
    def is_resolved_expr(e) -> bool:
        if isinstance(e, ast.Call) and (dotted(e.func) or "").split(".")[-1] == "parse_cosmology":
            return True
        if isinstance(e, ast.Attribute) and e.attr == "cosmology" and isinstance(e.value, ast.Name) and e.value.id == "self":
            return True
        if isinstance(e, ast.IfExp):
            return is_resolved_expr(e.body) and is_resolved_expr(e.orelse)
        return False

    if is_resolved_expr(arg):
        return True, "resolved (parse_cosmology / self.cosmology)"
    if not isinstance(arg, ast.Name):
        return False, "an expression that is not the resolved cosmology"
    cfg, IN = reaching_defs(m.node)
    nodes = cfg.node_containing(call)
    if not nodes:
        raise AnalysisError("C15.R2: call node not found in CFG")
    defs = set()
    for nd in nodes:
        defs |= IN.get(nd.id, {}).get(arg.id, set())
    if not defs and m.parent is not None and arg.id not in m.param_names():
        # a free variable of a closure: what reaches the definition of the closure in the enclosing function
        outer = m.parent
        cfg, IN = reaching_defs(outer.node)
        for nd in cfg.nodes:
            if nd.ast is m.node:
                defs |= IN.get(nd.id, {}).get(arg.id, set())
    if not defs:
        return False, "undefined"
    for d in defs:
        if d == -1:
            return False, "the raw parameter (possibly NotSet / a YAML name)"
        dn = cfg.nodes[d]
        v = getattr(dn.ast, "value", None)
        if not (isinstance(dn.ast, ast.Assign) and is_resolved_expr(v)):
            return False, f"defined by `{norm_stmt(dn.ast)[:60]}`, which is not a resolved cosmology"
    return True, "defined by parse_cosmology(...) / self.cosmology on every path"


def rule_r3(prog, res) -> None:
    """key protocol of modify -> from_dict"""
    n = dict_protocol(prog, res, "C15.R3", only_modify=True)
    if n < 3:
        raise AnalysisError(f"C15.R3: only {n} modify protocol instances, minimum 3")


def _kwnames(m: FuncInfo) -> list[str]:
    return [a.arg for a in m.node.args.kwonlyargs]


def rule_r4(prog, res) -> None:
    """create / modify signature agreement and same-name forwarding"""
    classes = _config_classes(prog)
    sigs = {}
    for ci in classes:
        cr, md = ci.methods.get("create"), ci.methods.get("modify")
        if cr is None or md is None:
            raise AnalysisError(f"C15.R4: {ci.name}.create/modify vanished")
        res.touch(cr)
        res.touch(md)
        a, b = _kwnames(cr), _kwnames(md)
        sigs[ci.name] = set(a)
        if set(a) == set(b):
            res.ok("C15.R4", res.site(md, "signature"), f"create and modify accept the same keywords {a}")
        else:
            res.violation("C15.R4", md, md.node, f"{ci.name}.create accepts {sorted(set(a) - set(b))} that modify lacks / modify accepts {sorted(set(b) - set(a))} that create lacks", key_extra="create-modify-signature")
        # defaults of modify are all NotSet
        bad = [p.arg for p, d in zip(md.node.args.kwonlyargs, md.node.args.kw_defaults) if not (isinstance(d, ast.Name) and d.id == "NotSet")]
        if bad:
            res.violation("C15.R4", md, md.node, f"modify parameters {bad} do not default to NotSet: an omitted parameter overwrites the original value", key_extra="modify-defaults")
        else:
            res.ok("C15.R4", res.site(md, "defaults"), "every modify parameter defaults to NotSet")
        # forwarding p=p
        for m in (cr, md):
            for c in calls_in(m):
                f = c.func
                if not (isinstance(f, ast.Attribute) and f.attr in ("create", "modify")) and not (isinstance(f, ast.Name) and f.id == "cls"):
                    continue
                own = set(_kwnames(m))
                sw = [(n_, unparse(v_)) for n_, v_ in named_args(c) if n_ in own and isinstance(v_, ast.Name) and v_.id in own and v_.id != n_]
                if sw:
                    res.violation("C15.R4", m, c, f"parameters are forwarded under another name: {sw}", key_extra=f"forward-swapped-{sw[0][0]}")
                else:
                    res.ok("C15.R4", res.site(m, norm_stmt(c)[:40]), "parameters forwarded under their own names", nontrivial=False)
    want = (sigs["ScalesConfig"] | sigs["BinningConfig"] | {"max_workers"})
    got = sigs["Configuration"]
    if got == want:
        res.ok("C15.R4", "Configuration.create", "keywords = ScalesConfig ∪ BinningConfig ∪ {max_workers}")
    else:
        conf = prog.find_class("Configuration").methods["create"]
        res.violation("C15.R4", conf, conf.node, f"Configuration.create lacks {sorted(want - got)} / has extra {sorted(got - want)} compared with its parts", key_extra="combined-signature")
    # every keyword of the parts is forwarded by the combined create / modify
    # (decided on the substituted calls of the symbolic store: parameters that travel through a grouping helper, a
    # dict or a named tuple before they are spread into the part's create / modify are followed)
    from .. import symx

    conf = prog.find_class("Configuration")
    for mname in ("create", "modify"):
        m = conf.methods[mname]
        own = set(_kwnames(m))
        fwd = None
        for p in symx.explore(prog, m, inline=symx.inline_private_helpers(prog, public={"create", "modify", "parse_cosmology", "from_dict", "to_dict"}), skip_tests=("logger",)):
            if p.outcome == "raise":
                continue
            here = set()
            for ev in p.calls():
                if ev.callee in ("create", "modify") and isinstance(ev.expr.func, ast.Attribute):
                    for n_, v_ in named_args(ev.expr):
                        here.add(n_)
                        if isinstance(v_, ast.Name) and v_.id in own and v_.id != n_ and n_ in own:
                            res.violation("C15.R4", m, ev.node, f"parameters are forwarded under another name: {[(n_, v_.id)]}", key_extra=f"forward-swapped-{n_}")
            fwd = here if fwd is None else (fwd & here)
        fwd = fwd or set()
        missing = (sigs["ScalesConfig"] | sigs["BinningConfig"]) - fwd
        if missing:
            res.violation("C15.R4", m, m.node, f"Configuration.{mname} accepts {sorted(missing)} but does not forward them to the part configurations: the parameter is silently ignored", key_extra=f"{mname}-not-forwarded-{'-'.join(sorted(missing))}")
        else:
            res.ok("C15.R4", res.site(m, "forwarding"), "every part parameter is forwarded")


def rule_r5(prog, res) -> None:
    """immutability"""
    imm = prog.find_class("Immutable")
    sa = imm.methods.get("__setattr__")
    if sa is None or not any(isinstance(x, ast.Raise) for x in walk_no_nested(sa.node)):
        raise AnalysisError("C15.R5: Immutable.__setattr__ no longer raises")
    cfgs = cfg_of(sa.node)
    if cfgs.exit.id in cfgs.reach([cfgs.entry], labels={"n", "t", "f", "loop", "exh"}):
        res.violation("C15.R5", sa, sa.node, "Immutable.__setattr__ can return normally: attributes of configurations can be mutated", key_extra="setattr-returns")
    else:
        res.ok("C15.R5", res.site(sa), "__setattr__ raises on every path")
    for ci in _config_classes(prog):
        first = prog.find_method(ci, "__setattr__")
        if first is not sa:
            res.violation("C15.R5", first or sa, ci.node, f"{ci.name} resolves __setattr__ to {first.short if first else 'object'} before Immutable", key_extra=f"{ci.name}-mro")
        else:
            res.ok("C15.R5", f"{ci.name} MRO", "Immutable.__setattr__ is the first __setattr__ in the MRO")
        for m in ci.methods.values():
            res.touch(m)
            raw = [c for c in calls_in(m) if (dotted(c.func) or "") in ("object.__setattr__", "super().__setattr__", "setattr")]
            stores = [x for x in walk_no_nested(m.node) if isinstance(x, (ast.Assign, ast.AugAssign)) and any(isinstance(t, ast.Attribute) and isinstance(t.value, ast.Name) and t.value.id == "self" for t in (x.targets if isinstance(x, ast.Assign) else [x.target]))]
            if m.name != "__init__" and (raw or stores):
                res.violation("C15.R5", m, (raw or stores)[0], f"{ci.name}.{m.name} writes an attribute of an existing configuration (bypassing Immutable)", key_extra=f"{m.name}-mutates")
            elif m.name in ("modify",):
                res.ok("C15.R5", res.site(m), "no store on self")


def rule_r6(prog, res) -> None:
    """validation on every construction path"""
    b = prog.find_class("Binning")
    init = b.methods["__init__"]
    res.touch(init)
    st = [x for x in walk_no_nested(init.node) if isinstance(x, ast.Assign) and any(unparse(t) == "self.edges" for t in x.targets)]
    if st and all(isinstance(s.value, ast.Call) and any(t.name == "parse_binning" for t in prog.resolve_call(init, s.value).funcs()) for s in st):
        res.ok("C15.R6", res.site(init, "edges"), "Binning.edges is only set from parse_binning(...)")
    else:
        res.violation("C15.R6", init, init.node, "Binning.edges is set without going through parse_binning: non-increasing edges are accepted", key_extra="edges-unvalidated")
    cst = [x for x in walk_no_nested(init.node) if isinstance(x, ast.Assign) and any(unparse(t) == "self.closed" for t in x.targets)]
    if cst and all(isinstance(s.value, ast.Call) and (dotted(s.value.func) or "") == "Closed" for s in cst):
        res.ok("C15.R6", res.site(init, "closed"), "closed side validated by the Closed enum")
    else:
        res.violation("C15.R6", init, init.node, "Binning.closed is stored without validation by the Closed enum", key_extra="closed-unvalidated")
    # strictness guards, decided by folding the path conditions of the validators (symbolic store; helpers looked
    # through) on concrete values: which outcome (raise / return) a value leads to, however the tests are written
    from .. import symx

    pb = prog.func("parse_binning")
    res.touch(pb)
    ppaths = symx.explore(prog, pb, inline=symx.inline_private_helpers(prog))
    diffs = sorted({unparse(y) for p in ppaths for t, _ in p.literals() for y in ast.walk(t) if isinstance(y, ast.Call) and (dotted(y.func) or "").split(".")[-1] in ("diff", "ediff1d")})
    verdict = {}
    if diffs:
        shape_ok = {unparse(y): v for p in ppaths for t, _ in p.literals() for y in ast.walk(t) if isinstance(y, (ast.Attribute, ast.Call)) for v in [1 if (isinstance(y, ast.Attribute) and y.attr == "ndim") else (5 if isinstance(y, ast.Call) and isinstance(y.func, ast.Name) and y.func.id == "len" else None)] if v is not None}
        a_ = pb.node.args
        defaults = {q.arg: d.value for q, d in zip(a_.kwonlyargs, a_.kw_defaults) if isinstance(d, ast.Constant)}
        defaults.update({q.arg: d.value for q, d in zip(a_.args[len(a_.args) - len(a_.defaults) :], a_.defaults) if isinstance(d, ast.Constant)})
        from ..effects import Vec

        # the differences of three edges: the first step is fine, the second one is -1 / 0 / +1
        for v in (-1.0, 0.0, 1.0):
            env = dict(shape_ok)
            env.update(defaults)  # optional flags at their default (an array is given)
            env.update({d: Vec((1.0, v)) for d in diffs})
            verdict[v] = symx.outcomes_under(ppaths, env)
    if verdict.get(-1.0) == {"raise"} and verdict.get(0.0) == {"raise"} and verdict.get(1.0) == {"return"}:
        res.ok("C15.R6", res.site(pb), "raises when any edge difference is <= 0 (equal edges rejected), returns for increasing edges")
    else:
        res.violation("C15.R6", pb, pb.node, f"parse_binning does not reject equal or decreasing neighbouring edges (outcome for an edge difference of -1 / 0 / +1: {verdict.get(-1.0)} / {verdict.get(0.0)} / {verdict.get(1.0)})", key_extra="binning-not-strict")
    sc = prog.find_class("Scales")
    ss = sc.methods["_set_scales"]
    res.touch(ss)
    if len(ss.param_names()) == 2:
        # the two limits travel as one pair: explored with the parameter bound to a pair of two named witnesses
        pmin, pmax = "lo_witness", "hi_witness"
        pair = ast.Tuple(elts=[ast.Name(id=pmin, ctx=ast.Load()), ast.Name(id=pmax, ctx=ast.Load())], ctx=ast.Load())
        spaths = symx.Explorer(prog, inline=symx.inline_private_helpers(prog)).run(ss, {ss.param_names()[1]: pair})
    elif len(ss.param_names()) >= 3:
        spaths = symx.explore(prog, ss, inline=symx.inline_private_helpers(prog))
        pmin, pmax = ss.param_names()[1:3]
    else:
        raise AnalysisError(f"C15.R6: Scales._set_scales takes no limits any more ({ss.param_names()[1:]}): strictness witnesses not applicable")
    sverdict = {}
    from ..effects import Vec

    # two-element test vectors: all ordered / one pair equal / one pair reversed (the other pair is fine)
    for lo, hi in ((1.0, 2.0), (2.0, 2.0), (3.0, 2.0)):
        env = {pmin: Vec((1.0, lo)), pmax: Vec((2.0, hi))}
        # the shape tests (ndim / len of the two arrays) hold for two scalars of equal shape
        for p in spaths:
            for t, _ in p.literals():
                for y in ast.walk(t):
                    if isinstance(y, ast.Attribute) and y.attr == "ndim":
                        env[unparse(y)] = 1
                    if isinstance(y, ast.Call) and isinstance(y.func, ast.Name) and y.func.id == "len":
                        env[unparse(y)] = 2
        sverdict[(lo, hi)] = symx.outcomes_under(spaths, env)
    if sverdict[(1.0, 2.0)] == {"return"} and sverdict[(2.0, 2.0)] == {"raise"} and sverdict[(3.0, 2.0)] == {"raise"}:
        res.ok("C15.R6", res.site(ss), "raises when rmax - rmin <= 0, accepts rmin < rmax")
    else:
        res.violation("C15.R6", ss, ss.node, f"_set_scales does not reject rmin >= rmax (outcomes for (min, max) = (1,2) / (2,2) / (3,2): {sverdict[(1.0, 2.0)]} / {sverdict[(2.0, 2.0)]} / {sverdict[(3.0, 2.0)]})", key_extra="scales-not-strict")
    for sub in prog.subclasses(sc):
        # the constructor that runs for this class (its own or an inherited one), helper methods looked through
        i2 = prog.find_method(sub, "__init__")
        if i2 is None:
            continue
        res.touch(i2)
        bases_ = [k for k in prog.mro(sub)[1:] if isinstance(k, ClassInfo)]
        # (a constructor of a base class reached through super().__init__ is part of this class's construction)
        ipaths = [p for p in symx.explore(prog, i2, inline=lambda caller, call, callee, bases_=bases_: callee.cls is not None and (callee.name not in ("_set_scales", "__init__") or (callee.name == "__init__" and callee.cls in bases_))) if p.outcome != "raise"]
        ok_ = bool(ipaths)
        for p in ipaths:
            unit_v = p.store.get("self.unit")
            if not p.calls("_set_scales"):
                ok_ = False
            if not (isinstance(unit_v, ast.Call) and (dotted(unit_v.func) or "") == "Unit"):
                ok_ = False
            if "self.scale_min" in p.store or "self.scale_max" in p.store:
                ok_ = False
        if ok_:
            res.ok("C15.R6", res.site(i2, sub.name), "scales set through _set_scales, unit validated by the Unit enum")
        else:
            res.violation("C15.R6", i2, i2.node, f"{sub.name} sets its scales/unit without validation", key_extra=f"{sub.name}-unvalidated")
    bc = prog.find_class("BinningConfig")
    cr = bc.methods["create"]
    res.touch(cr)
    # neither edges nor zmin/zmax -> every path raises
    cparams = cr.param_names()
    env_none = {q: None for q in cparams if q in ("edges", "zmin", "zmax")}
    cpaths = symx.explore(prog, cr, env=env_none, inline=symx.inline_private_helpers(prog))
    if cpaths and len(env_none) == 3 and all(p.outcome == "raise" for p in cpaths):
        res.ok("C15.R6", res.site(cr, "required parameters"), "raises when neither edges nor zmin and zmax are given")
    else:
        res.violation("C15.R6", cr, cr.node, "BinningConfig.create no longer raises when neither edges nor zmin/zmax are given", key_extra="create-no-required-check")
    gm = prog.func("RedshiftBinningFactory.get_method")
    res.touch(gm)
    if any(isinstance(c.func, ast.Name) and c.func.id == "BinMethodAuto" for c in calls_in(gm)):
        res.ok("C15.R6", res.site(gm), "method name validated by BinMethodAuto")
    else:
        res.violation("C15.R6", gm, gm.node, "binning method name is used for attribute lookup without validation", key_extra="method-unvalidated")


def rule_r7(prog, res) -> None:
    """outer edges are exact copies of the requested limits: decided on the symbolic store of every public factory
    method (shared helpers looked through) — the array handed to Binning(...) is numpy.linspace(<lower>, <upper>, …)
    of the two limit parameters themselves, or its elements [0] and [-1] were overwritten with those parameters
    before"""
    from .. import symx

    fac = prog.find_class("RedshiftBinningFactory")
    n = 0
    for m in fac.methods.values():
        if m.name.startswith("_"):
            continue
        paths = [p for p in symx.explore(prog, m, inline=symx.inline_private_helpers(prog)) if p.outcome == "return"]
        ctors = [(p, ev) for p in paths for ev in p.calls() if any(k.name == "Binning" for k in prog.resolve_call(ev.fi, ev.node).classes())]
        if not ctors:
            continue
        n += 1
        res.touch(m)
        lo_p, hi_p = m.param_names()[1:3]
        bad = None
        for p, ev in ctors:
            arg = ev.expr.args[0] if ev.expr.args else kwarg(ev.expr, "edges")
            if arg is None:
                raise AnalysisError(f"C15.R7: edge argument of {m.short} not recognised")
            exact_lo = exact_hi = False
            # element stores into the local array are part of its symbolic value: SETITEM(array, index, value)
            pinned = {}
            base = arg
            while True:
                while isinstance(base, ast.Attribute):  # strip `.value`
                    base = base.value
                if isinstance(base, ast.Call) and isinstance(base.func, ast.Name) and base.func.id == symx.SETITEM and len(base.args) == 3:
                    try:
                        pinned.setdefault(ceval(base.args[1], {}), base.args[2])  # the latest store wins (outermost first)
                    except Unknown:
                        pass
                    base = base.args[0]
                    continue
                break
            if isinstance(pinned.get(0), ast.Name):
                exact_lo = pinned[0].id == lo_p
            if isinstance(pinned.get(-1), ast.Name):
                exact_hi = pinned[-1].id == hi_p
            if isinstance(base, ast.Call) and (dotted(base.func) or "").endswith("linspace"):
                a = base.args
                if len(a) >= 2 and isinstance(a[0], ast.Name) and a[0].id == lo_p and isinstance(a[1], ast.Name) and a[1].id == hi_p:
                    exact_lo = exact_lo or 0 not in pinned
                    exact_hi = exact_hi or -1 not in pinned
            k_ev = p.events.index(ev)
            for st_ in p.events[:k_ev]:
                if st_.kind != "store" or not isinstance(st_.expr, ast.Subscript):
                    continue
                if unparse(st_.expr.value) != unparse(arg) and unparse(st_.expr.value) != unparse(base):
                    continue
                try:
                    idx = ceval(st_.expr.slice, {})
                except Unknown:
                    continue
                if isinstance(st_.value, ast.Name):
                    if idx == 0:
                        exact_lo = st_.value.id == lo_p
                    if idx == -1:
                        exact_hi = st_.value.id == hi_p
            if not (exact_lo and exact_hi):
                bad = (ev, [w for w, ok in (("first", exact_lo), ("last", exact_hi)) if not ok])
        if bad is None:
            res.ok("C15.R7", res.site(m), f"first and last edge are copies of the parameters {lo_p}/{hi_p}")
        else:
            res.violation(
                "C15.R7",
                m,
                bad[0].node,
                f"the {' and '.join(bad[1])} bin edge of method '{m.name}' is the result of a floating-point round trip, not a copy of {lo_p}/{hi_p}: the binning "
                "does not span exactly [zmin, zmax] and the edges drift when the configuration is written to YAML and read back",
                key_extra=f"{m.name}-inexact-outer-edges",
            )
    if n < 3:
        raise AnalysisError(f"C15.R7: only {n} bin-edge factory methods found, minimum 3")


def rule_r8(prog, res) -> None:
    """bin edges and scales are recomputed from the configuration's own parameters: no result cache keyed by a projection"""
    from .common import memo_rule

    memo_rule(prog, res, "C15.R8", lambda f: f.module.name.startswith(("yaw.cosmology", "yaw.config", "yaw.binning")), "bin edges computed for one cosmology are returned for another")


def rule_r9(prog, res) -> None:
    """type unions that are used at run time are made of classes: `isinstance(x, get_args(Alias))` with an alias such
    as Union[A, "B"] hands the string forward reference to isinstance, which raises TypeError for every object that is
    not an A — a valid instance of B (e.g. a custom cosmology) can then not be configured at all"""
    n = 0
    for fi in prog.funcs:
        for c in calls_in(fi):
            if not (isinstance(c.func, ast.Name) and c.func.id in ("isinstance", "issubclass") and len(c.args) == 2):
                continue
            t = c.args[1]
            if isinstance(t, ast.Name):
                vals = [v for v in all_def_values(fi.node, t.id) if v is not None]
                t = vals[0] if len(vals) == 1 else t
            if not (isinstance(t, ast.Call) and (dotted(t.func) or "").split(".")[-1] == "get_args" and t.args and isinstance(t.args[0], ast.Name)):
                continue
            n += 1
            res.touch(fi)
            alias = t.args[0].id
            defs = [g for g in prog.lookup(fi.module, alias, fi.variant) if getattr(g, "kind", "") == "global" and g.value is not None]
            if len(defs) != 1:
                raise AnalysisError(f"C15.R9: the type alias {alias} used with get_args in {fi.short} could not be resolved")
            members = []
            v = defs[0].value
            if isinstance(v, ast.Subscript) and (dotted(v.value) or "").split(".")[-1] in ("Union", "Optional"):
                members = list(v.slice.elts) if isinstance(v.slice, ast.Tuple) else [v.slice]
            else:
                stack = [v]
                while stack:
                    x = stack.pop()
                    if isinstance(x, ast.BinOp) and isinstance(x.op, ast.BitOr):
                        stack += [x.left, x.right]
                    else:
                        members.append(x)
            fwd = [m.value for m in members if isinstance(m, ast.Constant) and isinstance(m.value, str)]
            if fwd:
                res.violation(
                    "C15.R9",
                    fi,
                    c,
                    f"isinstance(…, get_args({alias})) with {alias} = {unparse(v)[:60]}: the member {fwd} is a string forward reference, so isinstance raises TypeError for every object that does not match an earlier "
                    "member — a valid instance of that class is rejected (it cannot be used as the configured cosmology)",
                    key_extra=f"forward-ref-in-runtime-union-{alias}",
                )
            else:
                res.ok("C15.R9", res.site(fi, f"get_args({alias})"), f"{alias} = {unparse(v)[:50]} consists of classes only")
    if n == 0:
        res.ok("C15.R9", "no run-time type unions", "no isinstance(…, get_args(alias)) in the package", nontrivial=False)


def _names(e: ast.AST, name: str) -> bool:
    return any(isinstance(n, ast.Name) and n.id == name for n in ast.walk(e))


def rule_r10(prog, res) -> None:
    """every binning method works for every accepted cosmology and every valid range: at each numerical inversion
    `z_at_value(f, target)` (a) the target is of the kind `f` returns — a cosmology is an astropy model (distances
    with units) or a custom one (plain Mpc values), so a unit attached to / stripped from the target alone makes the
    inversion fail for one of the two kinds; (b) the inversion is not evaluated at the images of the requested
    limits themselves: it is partial at the lower bracket limit (raises for a lower redshift limit of zero) and the
    outer edges are given anyway. Decided on the symbolic value of the target on every path."""
    from .. import symx

    sites = [(fi, c) for fi in prog.funcs for c in calls_in(fi) if (dotted(c.func) or "").split(".")[-1] == "z_at_value" and len(c.args) >= 2]
    if not sites:
        raise AnalysisError("C15.R10: no numerical inversion (z_at_value) found — the comoving binning method is not recognised")
    for fi in {f for f, _ in sites}:
        res.touch(fi)
        params = [q for q in fi.param_names() if q not in ("self", "cls")]
        for p in symx.explore(prog, fi, inline=symx.inline_private_helpers(prog)):
            for ev in p.calls():
                if (dotted(ev.expr.func) or "").split(".")[-1] != "z_at_value" or len(ev.expr.args) < 2:
                    continue
                f, target = ev.expr.args[0], symx.strip_wrappers(ev.expr.args[1])
                ftxt = unparse(f)
                raw_method = isinstance(f, ast.Attribute)  # a bound method of the cosmology, handed over as it is
                # (a) kind of the target
                changed = None
                for x in ast.walk(target):
                    if isinstance(x, ast.BinOp) and isinstance(x.op, (ast.Mult, ast.LShift)):
                        for side in (x.left, x.right):
                            d = dotted(side) or ""
                            if d.split(".")[0] in ("units", "u") and len(d.split(".")) == 2:
                                changed = f"a unit is attached to the target ({unparse(x)[-40:]})"
                    if isinstance(x, ast.Call) and (dotted(x.func) or "").split(".")[-1] == "Quantity":
                        changed = "the target is converted to a Quantity"
                    if isinstance(x, ast.Attribute) and x.attr in ("value", "to_value") and ftxt in unparse(x.value):
                        changed = "the unit is stripped from the target"
                site = res.site(fi, f"z_at_value[{p.cond_text()[:40]}]")
                if changed and raw_method:
                    res.violation(
                        "C15.R10",
                        fi,
                        ev.node,
                        f"{changed} while the inverted function {ftxt} is handed over unchanged: for one kind of cosmology (astropy model with units / custom cosmology with plain values) "
                        "target and function values cannot be compared and the binning method raises instead of producing the requested bins",
                        key_extra=f"inversion-kind-mismatch-{fi.qualname}",
                    )
                else:
                    res.ok("C15.R10", site + " kind", "target and function values are of the same kind")
                # (b) inversion at the limits
                handled = any(
                    isinstance(t, ast.Try) and any(n_ is ev.node for b in t.body for n_ in ast.walk(b)) and t.handlers for t in ast.walk(fi.node) if isinstance(t, ast.Try)
                )
                if isinstance(target, ast.Call) and (dotted(target.func) or "").endswith("linspace") and len(target.args) >= 2 and not handled:
                    lo, hi = target.args[0], target.args[1]
                    if ftxt in unparse(lo) and ftxt in unparse(hi) and len(params) >= 2 and _names(lo, params[0]) and _names(hi, params[1]):
                        res.violation(
                            "C15.R10",
                            fi,
                            ev.node,
                            f"the inversion is evaluated on the whole grid {unparse(target)[:70]}…, including the images of the limits {params[0]}/{params[1]} themselves: z_at_value raises at its lower "
                            f"bracket limit, so a valid range starting at redshift 0 is rejected although the outer edges are known",
                            key_extra=f"inversion-at-limits-{fi.qualname}",
                        )
                        continue
                res.ok("C15.R10", site + " range", "the inversion is not evaluated at the given limits")


def rule_r11(prog, res) -> None:
    """the configured cosmology reaches every distance conversion: a call of an in-package function that takes a
    `cosmology` parameter must pass it whenever the caller has one at hand (its own `cosmology` parameter, a
    configuration object, or `self.cosmology`) — an omitted argument silently falls back to the default cosmology, so
    results with a non-default cosmology are computed with two different cosmologies (which stays invisible for every
    test that uses the default)"""

    def has_attr(ci: ClassInfo, name: str) -> bool:
        for c_ in prog.mro(ci):
            if name in getattr(c_, "class_ann", {}) or name in getattr(c_, "methods", {}) or name in (getattr(c_, "slots", None) or ()):
                return True
            if name in getattr(c_, "inst_attrs", {}):
                return True
        return False

    def at_hand(fi: FuncInfo) -> str | None:
        if "cosmology" in fi.param_names():
            return "cosmology"
        env = prog.func_env(fi)
        a = fi.node.args
        for prm in a.args + a.kwonlyargs:
            try:
                tys = env.type_of(ast.Name(id=prm.arg, ctx=ast.Load()))
            except Exception:  # noqa: BLE001
                tys = ()
            for ty in tys:
                if ty[0] == "cls" and has_attr(ty[1], "cosmology"):
                    return f"{prm.arg}.cosmology"
        return None

    n = 0
    for fi in prog.funcs:
        for c in calls_in(fi):
            try:
                gs = [g for g in prog.resolve_call(fi, c).funcs() if "cosmology" in g.param_names()]
            except Exception:  # noqa: BLE001
                continue
            if not gs:
                continue
            g = gs[0]
            pos = [q.arg for q in g.node.args.args if q.arg not in ("self", "cls")]
            given = kwarg(c, "cosmology")
            if given is None and "cosmology" in pos and pos.index("cosmology") < len(c.args) and not any(isinstance(x, ast.Starred) for x in c.args):
                given = c.args[pos.index("cosmology")]
            if given is None and any(k.arg is None for k in c.keywords):
                continue  # forwarded through **kwargs: followed by the dict rules (R2/R3)
            n += 1
            res.touch(fi)
            site = res.site(fi, f"{g.name}(cosmology=…)")
            if given is not None:
                res.ok("C15.R11", site, f"passes cosmology={unparse(given)[:40]}")
                continue
            src = at_hand(fi)
            if src is None:
                res.ok("C15.R11", site, "no configured cosmology in scope: the documented default applies", nontrivial=False)
                continue
            res.violation(
                "C15.R11",
                fi,
                c,
                f"{g.qualname} is called without its `cosmology` argument although {src} is at hand: the conversion silently uses the default cosmology, "
                "while other conversions of the same measurement use the configured one",
                key_extra=f"cosmology-omitted-{g.name}",
            )
    if n < 10:
        raise AnalysisError(f"C15.R11: only {n} calls of cosmology-taking functions found, minimum 10")


def rule_r12(prog, res) -> None:
    """conversions never mutate the configuration: no in-place update (`x /= …`) of an array that is (a view of) an
    argument or of stored state in the configuration / cosmology / binning modules — the scale limits handed to a
    conversion are the configuration's own arrays, so an in-place division changes the configuration (and the
    caller's input) a little more with every call"""
    from .c03 import inplace_rule

    inplace_rule(prog, res, "C15.R12", ("yaw.cosmology", "yaw.config", "yaw.binning", "yaw.options"), "the configuration's stored scale limits / edges change with every conversion: later bins, to_dict, == and modify use other parameters than those given")


def rule_r13(prog, res) -> None:
    """"not given" is decided by the sentinel, never by truthiness: a parameter whose default is the NotSet sentinel
    must be compared with the sentinel (`p is NotSet`); `p or self.p`, `if p:` and `not p` also treat the valid values
    0, 0.0, False and empty sequences as "not given", so modify(zmin=0) silently keeps the old value (the sentinel is
    falsy, which makes the shortcut look right). Every read of such a parameter in a boolean context is flagged."""
    n = 0
    for fi in prog.funcs:
        a = fi.node.args
        pairs = list(zip(a.args[len(a.args) - len(a.defaults) :], a.defaults)) + [(p_, d) for p_, d in zip(a.kwonlyargs, a.kw_defaults) if d is not None]
        sent = {p_.arg for p_, d in pairs if isinstance(d, (ast.Name, ast.Attribute)) and (dotted(d) or "").split(".")[-1] == "NotSet"}
        if not sent:
            continue
        n += 1
        res.touch(fi)
        bad = None
        for x in walk_no_nested(fi.node):
            tests = []
            if isinstance(x, ast.BoolOp):
                tests += list(x.values[:-1]) if isinstance(x.op, ast.Or) else list(x.values)
            if isinstance(x, (ast.If, ast.IfExp, ast.While)):
                tests.append(x.test)
            if isinstance(x, ast.UnaryOp) and isinstance(x.op, ast.Not):
                tests.append(x.operand)
            for t in tests:
                if isinstance(t, ast.Name) and t.id in sent:
                    bad = bad or (x, t.id)
        if bad:
            res.violation(
                "C15.R13",
                fi,
                bad[0],
                f"`{unparse(bad[0])[:60]}` decides by truthiness whether `{bad[1]}` was given (its default is the NotSet sentinel): the valid values 0 / 0.0 / False are treated as not given and silently replaced",
                key_extra=f"sentinel-truthiness-{fi.qualname}-{bad[1]}",
            )
        else:
            res.ok("C15.R13", res.site(fi), f"sentinel parameters {sorted(sent)} are never read in a boolean context", nontrivial=False)
    if n < 3:
        raise AnalysisError(f"C15.R13: only {n} functions with NotSet-defaulted parameters found, minimum 3")


def rule_r14(prog, res) -> None:
    """a restored configuration carries the discriminator it was stored with: when `from_dict` decides on a key of the
    dictionary (`the_dict["method"] == custom`) and builds the object directly with the constructor, the constructor
    parameter of that name is bound to that very value (or to the key itself) — left to its default, the restored
    object says `linear` for custom edges, compares unequal to its origin, and the next to_dict / modify replaces the
    edges by a generated grid.  Decided on the symbolic paths of every from_dict of the configuration classes."""
    from .. import symx

    n = 0
    for ci in prog.classes:
        if ci.module.name not in CONFIG_MODULES:
            continue
        fd, init = ci.methods.get("from_dict"), prog.find_method(ci, "__init__")
        if fd is None or init is None or not fd.is_classmethod:
            continue
        dparam = next((q for q in fd.param_names()[1:]), None)
        if dparam is None:
            continue
        iparams = [q.arg for q in [*init.node.args.posonlyargs, *init.node.args.args, *init.node.args.kwonlyargs]][1:]
        res.touch(fd)
        for p in symx.explore(prog, fd, inline=symx.inline_private_helpers(prog, public={"create", "modify", "from_dict", "to_dict"})):
            if p.outcome != "return" or p.value is None:
                continue
            v = symx.strip_wrappers(p.value)
            if not (isinstance(v, ast.Call) and isinstance(v.func, ast.Name) and v.func.id in ("cls", ci.name)):
                continue
            # keys of the dictionary that this path has compared with a constant (positively)
            fixed = {}
            for t, pol in p.literals():
                for c in [x for x in ast.walk(t) if isinstance(x, ast.Compare) and len(x.ops) == 1 and isinstance(x.ops[0], ast.Eq)]:
                    l = c.left
                    key = None
                    if isinstance(l, ast.Call) and isinstance(l.func, ast.Attribute) and l.func.attr in ("get", "pop") and isinstance(l.func.value, ast.Name) and l.func.value.id == dparam and l.args and isinstance(l.args[0], ast.Constant):
                        key = l.args[0].value
                    elif isinstance(l, ast.Subscript) and isinstance(l.value, ast.Name) and l.value.id == dparam and isinstance(l.slice, ast.Constant):
                        key = l.slice.value
                    if key is not None and key in iparams:
                        # (a disjunction `key == C or …` that holds: the key is one way into this arm — the arm stands
                        # for "the object is of kind C")
                        if pol or isinstance(t, ast.BoolOp):
                            fixed[key] = c.comparators[0]
            for key, const in fixed.items():
                n += 1
                bound = kwarg(v, key)
                if bound is None and key in iparams and iparams.index(key) < len(v.args):
                    bound = v.args[iparams.index(key)]
                site = res.site(fd, f"{key} on the arm {key} == {unparse(const)}")
                if bound is None:
                    res.violation("C15.R14", fd, p.node or fd.node, f"{ci.name}.from_dict enters this arm for {key} == {unparse(const)} but builds the object without passing {key}: the constructor default stands in, the restored configuration differs from the stored one (and from create with the same parameters)", key_extra=f"from-dict-{ci.name}-{key}-defaulted")
                elif unparse(bound) == unparse(const) or symx.mentions(bound, lambda y: isinstance(y, ast.Constant) and y.value == key):
                    res.ok("C15.R14", site, f"{key}={unparse(bound)[:40]} is handed to the constructor")
                else:
                    res.violation("C15.R14", fd, p.node or fd.node, f"{ci.name}.from_dict enters this arm for {key} == {unparse(const)} but constructs with {key}={unparse(bound)[:40]}", key_extra=f"from-dict-{ci.name}-{key}-other")
    if n < 1:
        raise AnalysisError("C15.R14: no from_dict arm that is selected by a key and builds the object directly was found")


def rule_r15(prog, res) -> None:
    """small facts the configuration algebra stands on, each folded on a witness: (a) `BinningConfig.zmin` / `zmax` are
    the first / last edge, `is_custom` is true exactly for the method `custom`; (b) every bin-edge factory makes
    `num_bins + 1` edges; (c) the logarithmic factory transforms with log(1 + z) and back with exp(.) - 1; (d) a missing
    cosmology — and only a missing one — is replaced by the default (`parse_cosmology`, `cosmology or default`);
    (e) the generic `modify` merges exactly the given (not NotSet) keywords into the dictionary it rebuilds from."""
    from .. import symx
    from ..norm import poly as _poly15
    from .c18 import _fold_value

    n = 0
    bc = prog.find_class("BinningConfig")
    # (a)
    for name, idx in (("zmin", 0), ("zmax", -1)):
        m = bc.methods.get(name)
        if m is None:
            raise AnalysisError(f"C15.R15: BinningConfig.{name} vanished")
        res.touch(m)
        rets = [x.value for x in walk_no_nested(m.node) if isinstance(x, ast.Return) and x.value is not None]
        subs = [y for r in rets for y in ast.walk(r) if isinstance(y, ast.Subscript) and isinstance(y.value, ast.Attribute) and y.value.attr == "edges"]
        n += 1
        try:
            got = [ceval(y.slice, {}) for y in subs]
        except Unknown:
            got = []
        W = (1.0, 2.0, 4.0)
        if got and all(isinstance(g, int) and W[g] == W[idx] for g in got if isinstance(g, int) and -3 <= g < 3) and all(isinstance(g, int) for g in got):
            res.ok("C15.R15", res.site(m), f"the {'first' if idx == 0 else 'last'} bin edge")
        else:
            res.violation("C15.R15", m, m.node, f"BinningConfig.{name} is not the {'first' if idx == 0 else 'last'} edge of the binning (edges[{got}]): to_dict / modify / create rebuild the configuration over another redshift range than it has", key_extra=f"binning-config-{name}")
    ic = bc.methods.get("is_custom")
    if ic is not None:
        res.touch(ic)
        r_ = [x.value for x in walk_no_nested(ic.node) if isinstance(x, ast.Return) and x.value is not None]
        n += 1
        try:
            tab = {mv: bool(ceval(r_[0], {"self.method": mv})) for mv in ("custom", "linear", "comoving", "logspace")}
        except (Unknown, IndexError):
            raise AnalysisError("C15.R15: cannot fold BinningConfig.is_custom") from None
        if tab == {"custom": True, "linear": False, "comoving": False, "logspace": False}:
            res.ok("C15.R15", res.site(ic), "true exactly for method 'custom'")
        else:
            res.violation("C15.R15", ic, ic.node, f"BinningConfig.is_custom is {tab}: to_dict stores generated bins as custom edges and custom edges as generation parameters, the restored configuration differs from the stored one", key_extra="is-custom")
    # (b), (c)
    fac = prog.find_class("RedshiftBinningFactory")
    for name in ("linear", "comoving", "logspace"):
        m = fac.methods.get(name)
        if m is None:
            raise AnalysisError(f"C15.R15: RedshiftBinningFactory.{name} vanished")
        res.touch(m)
        nb = next((q for q in m.param_names() if "num" in q), None)
        want = _poly15(ast.parse(f"{nb} + 1", mode="eval").body)
        resolver = lambda nm, m=m: (lambda vs: vs[0] if len(vs) == 1 else None)([v for v in all_def_values(m.node, nm) if v is not None])  # noqa: E731
        for c in calls_in(m):
            fnm = (dotted(c.func) or "").split(".")[-1]
            cnt = None
            if fnm in ("linspace", "logspace", "geomspace") and len(c.args) >= 3:
                cnt = c.args[2]
            elif fnm in ("linspace", "logspace", "geomspace") and kwarg(c, "num") is not None:
                cnt = kwarg(c, "num")
            elif fnm in ("empty", "zeros") and c.args:
                cnt = c.args[0]
            if cnt is None:
                continue
            n += 1
            try:
                ok_ = _poly15(cnt, resolver).equals(want)
            except Exception:  # noqa: BLE001
                raise AnalysisError(f"C15.R15: cannot normalise the number of edges `{unparse(cnt)}` in {m.short}") from None
            if ok_:
                res.ok("C15.R15", res.site(m, f"{fnm} count"), f"{unparse(cnt)} = {nb} + 1 edges")
            else:
                res.violation("C15.R15", m, c, f"RedshiftBinningFactory.{name} makes `{unparse(cnt)}` edges instead of {nb} + 1: the configuration reports {nb} bins, the measurement has another number (arrays per bin are sized by the edges)", key_extra=f"factory-edge-count-{name}")
        if name == "logspace":
            logs = [c for c in calls_in(m) if (dotted(c.func) or "").split(".")[-1] in ("log", "log1p")]
            if not logs:
                # the transformation may sit in a helper / a strategy function: read it off the symbolic paths
                seen_l = set()
                for p_ in symx.explore(prog, m, inline=symx.inline_private_helpers(prog)):
                    for ev in p_.calls():
                        if (dotted(ev.expr.func) or "").split(".")[-1] in ("log", "log1p") and unparse(ev.expr) not in seen_l and ev.expr.args:
                            seen_l.add(unparse(ev.expr))
                            logs.append(ev.expr)
            fwd_ok = bool(logs) and all(((dotted(c.func) or "").endswith("log1p")) or all(isinstance(y, ast.BinOp) and isinstance(y.op, ast.Add) and any(isinstance(z, ast.Constant) and z.value == 1 for z in (y.left, y.right)) for y in (c.args[0].elts if isinstance(c.args[0], (ast.List, ast.Tuple)) else [c.args[0]])) for c in logs)
            # (on the symbolic store: the exponentiated grid may travel through locals / helpers before the 1 is taken off)
            exprs_ = []
            for p_ in symx.explore(prog, m, inline=symx.inline_private_helpers(prog)):
                exprs_ += [p_.value] if p_.value is not None else []
                exprs_ += [a for ev in p_.calls() for a in [*ev.expr.args, *[k.value for k in ev.expr.keywords]]]
                exprs_ += [ev.value for ev in p_.events if ev.kind == "store" and ev.value is not None]
            back = [x for e_ in exprs_ for x in ast.walk(e_) if isinstance(x, ast.BinOp) and isinstance(x.op, (ast.Sub, ast.Add)) and isinstance(x.right, ast.Constant) and x.right.value == 1 and any(isinstance(y, ast.Call) and (dotted(y.func) or "").split(".")[-1] in ("logspace", "exp", "expm1") for y in ast.walk(x.left))]
            back_ok = any(isinstance(x.op, ast.Sub) for x in back) and not any(isinstance(x.op, ast.Add) for x in back) or any((dotted(c.func) or "").endswith("expm1") for c in calls_in(m))
            n += 1
            if fwd_ok and back_ok:
                res.ok("C15.R15", res.site(m, "log(1+z)"), "edges are equidistant in log(1 + z): forward log(1 + z), back exp(.) - 1")
            else:
                res.violation("C15.R15", m, m.node, f"RedshiftBinningFactory.logspace does not transform with log(1 + z) and back with exp(.) - 1 (forward ok: {fwd_ok}, back ok: {back_ok}): the inner edges are not equidistant in log(1 + z), only the pinned outer edges are right", key_extra="logspace-transform")
    # (d)
    pc = prog.func("parse_cosmology")
    res.touch(pc)
    prm = pc.param_names()[0]
    for given in (False, True):
        def orc(t, given=given):
            if isinstance(t, ast.Compare) and len(t.ops) == 1 and isinstance(t.left, ast.Name) and t.left.id == prm and isinstance(t.comparators[0], ast.Constant) and t.comparators[0].value is None:
                return (not given) == isinstance(t.ops[0], ast.Is)
            if isinstance(t, ast.Call) and isinstance(t.func, ast.Name) and t.func.id == "isinstance" and t.args and isinstance(t.args[0], ast.Name) and t.args[0].id == prm:
                return given and "str" not in unparse(t.args[1])
            return None

        rets = [p for p in symx.explore(prog, pc, oracle=orc, inline=symx.inline_private_helpers(prog, public={"get_default_cosmology"})) if p.outcome == "return" and p.value is not None]
        n += 1
        if not rets:
            res.violation("C15.R15", pc, pc.node, f"parse_cosmology never returns for {'a cosmology instance' if given else 'None'}", key_extra=f"parse-cosmology-{given}")
            continue
        is_default = [any(isinstance(y, ast.Call) and (dotted(y.func) or "").split(".")[-1] == "get_default_cosmology" for y in ast.walk(p.value)) for p in rets]
        is_same = [isinstance(p.value, ast.Name) and p.value.id == prm for p in rets]
        if (given and all(is_same)) or (not given and all(is_default)):
            res.ok("C15.R15", res.site(pc, "given" if given else "None"), "returned as given" if given else "replaced by the default cosmology")
        else:
            res.violation("C15.R15", pc, pc.node, f"parse_cosmology returns {'the default cosmology' if given else 'something else than the default'} for {'a cosmology instance that was given' if given else 'None'}: " + ("the configured cosmology is silently replaced, comoving bins and physical scales are computed with the default" if given else "a missing cosmology is not resolved"), key_extra=f"parse-cosmology-{given}")
    n_cos = 0
    for fi in prog.funcs:
        if not fi.module.name.startswith(("yaw.cosmology", "yaw.config")):
            continue
        cparams = [q for q in fi.param_names() if "cosmo" in q]
        if not cparams:
            continue
        for x in walk_no_nested(fi.node):
            if not (isinstance(x, (ast.Assign, ast.Return, ast.AnnAssign)) and x.value is not None and any(isinstance(y, ast.Call) and (dotted(y.func) or "").split(".")[-1] == "get_default_cosmology" for y in ast.walk(x.value))):
                continue
            n += 1
            n_cos += 1
            res.touch(fi)
            nm = next((v.id for v in ast.walk(x.value) if isinstance(v, ast.Name) and v.id in cparams), cparams[0])

            class _D(ast.NodeTransformer):
                def visit_Call(self, c_):
                    return ast.Constant(value="DEFAULT") if (dotted(c_.func) or "").split(".")[-1] == "get_default_cosmology" else self.generic_visit(c_)

            import copy as _cp

            from ..cfg import cfg_of as _cfgof

            fcfg = _cfgof(fi.node)
            guards = [(t, pol) for nd in fcfg.node_containing(x) for t, pol in fcfg.guards(nd) if any(isinstance(y, ast.Name) and y.id == nm for y in ast.walk(t))]
            expr = _D().visit(_cp.deepcopy(x.value))
            tab = []
            try:
                for val in ("GIVEN", None):
                    reach = all(bool(_fold_value(_cp.deepcopy(t), {nm: val})) == pol for t, pol in guards)
                    tab.append(_fold_value(expr, {nm: val}) if reach else ("GIVEN" if val is not None else "UNREACHED"))
            except Exception:  # noqa: BLE001
                raise AnalysisError(f"C15.R15: cannot fold `{unparse(x.value)[:50]}` of {fi.short} for a given / a missing cosmology") from None
            if tuple(tab) in (("GIVEN", "DEFAULT"), ("GIVEN", "UNREACHED")) and not (tab[1] == "UNREACHED" and not guards):
                res.ok("C15.R15", res.site(fi, f"{nm} or default"), "a given cosmology is kept, a missing one replaced by the default")
            else:
                res.violation("C15.R15", fi, x, f"`{norm_stmt(x)[:70]}` gives {tab[0]!r} for a given cosmology and {tab[1]!r} for None: the cosmology that was passed in is replaced by the default (or a missing one stays None)", key_extra=f"cosmology-or-default-{fi.qualname}")
    if n_cos < 2:
        raise AnalysisError(f"C15.R15: only {n_cos} places found where a missing cosmology parameter is replaced by the default, minimum 2")
    # (e)
    base = prog.find_class("BaseConfig")
    gm = base.methods.get("modify") if base else None
    if gm is not None and not all(isinstance(st, (ast.Pass, ast.Expr)) for st in gm.node.body):
        res.touch(gm)
        kw = gm.node.args.kwarg.arg if gm.node.args.kwarg else None
        merges = [c for c in calls_in(gm) if isinstance(c.func, ast.Attribute) and c.func.attr == "update" and kw and any(isinstance(y, ast.Name) and y.id == kw for y in ast.walk(c))]
        # the loop form: for key, value in kwargs.items(): [if value is not NotSet:] conf_dict[key] = value
        for lp in [x for x in walk_no_nested(gm.node) if isinstance(x, ast.For) and kw and any(isinstance(y, ast.Name) and y.id == kw for y in ast.walk(x.iter))]:
            tg = {y.id for y in ast.walk(lp.target) if isinstance(y, ast.Name)}
            if any(isinstance(y, ast.Assign) and isinstance(y.targets[0], ast.Subscript) and any(isinstance(z, ast.Name) and z.id in tg for z in ast.walk(y.value)) for y in ast.walk(lp)):
                merges.append(lp)
        merges += [x for x in walk_no_nested(gm.node) if isinstance(x, ast.BinOp) and isinstance(x.op, ast.BitOr) and kw and any(isinstance(y, ast.Name) and y.id == kw for y in ast.walk(x))]
        merges += [x for x in walk_no_nested(gm.node) if isinstance(x, ast.Dict) and any(k is None for k in x.keys) and kw and any(isinstance(y, ast.Name) and y.id == kw for y in ast.walk(x))]
        n += 1
        if not merges:
            res.violation("C15.R15", gm, gm.node, "the generic modify() does not merge the given keywords into the dictionary it rebuilds the configuration from: every modification is silently ignored", key_extra="generic-modify-ignores-kwargs")
        else:
            filt = [cnd for mg in merges for y in ast.walk(mg) if isinstance(y, (ast.DictComp, ast.GeneratorExp, ast.ListComp)) for g in y.generators for cnd in g.ifs]
            for mg in merges:
                if isinstance(mg, ast.For):
                    for y in ast.walk(mg):
                        if isinstance(y, ast.If) and "NotSet" in unparse(y.test):
                            stores_in_body = any(isinstance(z, ast.Assign) and isinstance(z.targets[0], ast.Subscript) for s_ in y.body for z in ast.walk(s_))
                            skips_in_body = any(isinstance(z, ast.Continue) for s_ in y.body for z in ast.walk(s_))
                            filt.append(y.test if stores_in_body else ast.UnaryOp(op=ast.Not(), operand=y.test) if skips_in_body else y.test)
            bad = None
            for cnd in filt:
                vn = next((y.id for y in ast.walk(cnd) if isinstance(y, ast.Name) and y.id not in ("NotSet",)), None)
                if vn is None:
                    continue
                try:
                    keep_set = bool(ceval(cnd, {vn: 5, "NotSet": "<NotSet>"}))
                    keep_unset = bool(ceval(cnd, {vn: "<NotSet>", "NotSet": "<NotSet>"}))
                except Unknown:
                    continue
                if not keep_set or keep_unset:
                    bad = cnd
            if bad is not None:
                res.violation("C15.R15", gm, bad, f"the generic modify() keeps a keyword when `{unparse(bad)}`: given values are dropped and the NotSet placeholders are merged into the configuration", key_extra="generic-modify-filter")
            else:
                res.ok("C15.R15", res.site(gm), "the given (not NotSet) keywords are merged into the dictionary handed to from_dict")
    if n < 10:
        raise AnalysisError(f"C15.R15: only {n} facts folded, minimum 10")


# parameters of `modify` that do not depend on which arm (generated / custom bins, …) builds the copy: read and confirmed on
# the pinned tree — every returning path merges them (`X if P is NotSet else P`) or hands them on
MODIFY_ALWAYS = {
    "BinningConfig": ("closed", "cosmology"),  # the closed side and the cosmology apply to generated and to custom edges alike
    "ScalesConfig": ("rmin", "rmax", "unit", "rweight", "resolution"),  # one arm: all handed to the generic merge
    "Configuration": ("rmin", "rmax", "unit", "rweight", "resolution", "zmin", "zmax", "num_bins", "method", "edges", "closed", "cosmology", "max_workers"),
}


def rule_r16(prog, res) -> None:
    """modify honours every parameter on every path: a parameter of `modify` that is independent of the arm that builds
    the copy (table MODIFY_ALWAYS, confirmed by reading) is read — merged with the current value or handed on — on
    EVERY returning path of the method, decided on its symbolic paths.  An early return that builds the copy from the
    current state alone ("nothing to re-compute") silently ignores the parameters that are merged further down"""
    from .. import symx

    n = 0
    for cname, always in MODIFY_ALWAYS.items():
        ci = prog.find_class(cname)
        md = ci.methods.get("modify")
        if md is None:
            raise AnalysisError(f"C15.R16: {cname}.modify vanished")
        res.touch(md)
        params = set(md.param_names()[1:])
        missing_decl = [q for q in always if q not in params]
        if missing_decl:
            raise AnalysisError(f"C15.R16: {cname}.modify no longer declares {missing_decl} (table MODIFY_ALWAYS out of date)")
        try:
            paths = symx.explore(prog, md, inline=symx.inline_private_helpers(prog), skip_tests=("logger",), max_paths=600)
        except symx.TooManyPaths:
            raise AnalysisError(f"C15.R16: too many paths through {md.short}") from None
        rets = [p for p in paths if p.outcome == "return"]
        if not rets:
            raise AnalysisError(f"C15.R16: {md.short} has no returning path")
        for q in always:
            n += 1
            bad = None
            for p in rets:
                exprs = [t for t, _pol, _n in p.conds] + [ev.expr for ev in p.events if ev.expr is not None] + ([p.value] if p.value is not None else [])
                if not any(isinstance(y, ast.Name) and y.id == q for e in exprs for y in ast.walk(e)):
                    bad = p
                    break
            if bad is None:
                res.ok("C15.R16", res.site(md, q), f"read on all {len(rets)} returning path(s)", nontrivial=False)
            else:
                res.violation("C15.R16", md, bad.node or md.node, f"{cname}.modify returns without ever reading its parameter `{q}` on the path [{bad.cond_text()[:110]}]: a caller that sets `{q}` together with this combination of the other parameters gets a copy with the OLD value — modify no longer equals create from the merged parameters", key_extra=f"modify-ignores-{cname}-{q}")
    if n < 10:
        raise AnalysisError(f"C15.R16: only {n} (class, parameter) instances, minimum 10")


def rule_r17(prog, res) -> None:
    """scale limits are converted with the factor of their unit and the distance measure of their kind (= C01.R4: the
    conversion tables of Angular / Physical / ComovingScales folded for one unit of scale at distance 2)"""
    from . import c01
    from .common import shared_rule

    shared_rule(res, c01.rule_r4, "C01", "C01.R4", "C15.R17")


RULES = [
    ("C15.R1", rule_r1, QUICK),
    ("C15.R2", rule_r2, QUICK),
    ("C15.R3", rule_r3, QUICK),
    ("C15.R4", rule_r4, QUICK),
    ("C15.R5", rule_r5, QUICK),
    ("C15.R6", rule_r6, QUICK),
    ("C15.R7", rule_r7, QUICK),
    ("C15.R8", rule_r8, QUICK),
    ("C15.R9", rule_r9, QUICK),
    ("C15.R10", rule_r10, QUICK),
    ("C15.R11", rule_r11, QUICK),
    ("C15.R12", rule_r12, QUICK),
    ("C15.R13", rule_r13, QUICK),
    ("C15.R14", rule_r14, QUICK),
    ("C15.R15", rule_r15, QUICK),
    ("C15.R16", rule_r16, QUICK),
    ("C15.R17", rule_r17, QUICK),
]
