"""A4: definite assignment, reaching definitions and def-use helpers on the CFG."""

from __future__ import annotations

import ast
import builtins

from .cfg import CFG, Node, cfg_of
from .model import FuncInfo, walk_no_nested


def _targets(t: ast.AST) -> list[str]:
    out = []
    if isinstance(t, ast.Name):
        out.append(t.id)
    elif isinstance(t, (ast.Tuple, ast.List)):
        for e in t.elts:
            out.extend(_targets(e))
    elif isinstance(t, ast.Starred):
        out.extend(_targets(t.value))
    return out


def node_defs(n: Node) -> set[str]:
    """Local names bound when node n completes normally."""
    out: set[str] = set()
    a = n.ast
    if n.kind == "stmt" and a is not None:
        if isinstance(a, ast.Assign):
            for t in a.targets:
                out.update(_targets(t))
        elif isinstance(a, (ast.AnnAssign, ast.AugAssign)):
            if getattr(a, "value", None) is not None or isinstance(a, ast.AugAssign):
                out.update(_targets(a.target))
        elif isinstance(a, (ast.FunctionDef, ast.AsyncFunctionDef, ast.ClassDef)):
            out.add(a.name)
        elif isinstance(a, (ast.Import, ast.ImportFrom)):
            for al in a.names:
                out.add((al.asname or al.name).split(".")[0])
    elif n.kind == "for":
        out.update(_targets(a.target))
    elif n.kind == "with_enter" and a.optional_vars is not None:
        out.update(_targets(a.optional_vars))
    elif n.kind == "except" and a.name:
        out.add(a.name)
    if n.expr is not None:
        for x in walk_no_nested(n.expr):
            if isinstance(x, ast.NamedExpr):
                out.update(_targets(x.target))
    return out


def node_uses(n: Node) -> list[ast.Name]:
    """Name loads evaluated at node n (comprehension-bound names excluded)."""
    if n.expr is None:
        return []
    expr = n.expr
    roots: list[ast.AST]
    a = n.ast
    if n.kind == "stmt" and isinstance(a, (ast.FunctionDef, ast.AsyncFunctionDef, ast.ClassDef)):
        return []
    roots = [expr]
    bound: set[str] = set()
    for x in walk_no_nested(expr):
        if isinstance(x, ast.comprehension):
            bound.update(_targets(x.target))
        elif isinstance(x, ast.Lambda):
            pass
    out = []
    for r in roots:
        for x in walk_no_nested(r):
            if isinstance(x, ast.Name) and isinstance(x.ctx, ast.Load) and x.id not in bound:
                out.append(x)
    if isinstance(a, ast.AugAssign) and n.kind == "stmt" and isinstance(a.target, ast.Name):
        out.append(ast.copy_location(ast.Name(id=a.target.id, ctx=ast.Load()), a.target))
    return out


def local_names(fn: ast.FunctionDef) -> set[str]:
    names: set[str] = set()
    declared_global: set[str] = set()
    for x in walk_no_nested(fn):
        if isinstance(x, (ast.Global, ast.Nonlocal)):
            declared_global.update(x.names)
        elif isinstance(x, ast.Name) and isinstance(x.ctx, (ast.Store, ast.Del)):
            names.add(x.id)
        elif isinstance(x, (ast.FunctionDef, ast.AsyncFunctionDef, ast.ClassDef)) and x is not fn:
            names.add(x.name)
        elif isinstance(x, ast.ExceptHandler) and x.name:
            names.add(x.name)
        elif isinstance(x, (ast.Import, ast.ImportFrom)):
            for al in x.names:
                names.add((al.asname or al.name).split(".")[0])
    # comprehension targets are not function locals
    comp: set[str] = set()
    for x in walk_no_nested(fn):
        if isinstance(x, ast.comprehension):
            comp.update(_targets(x.target))
    stores_outside = set()
    for x in walk_no_nested(fn):
        if isinstance(x, (ast.Assign, ast.AugAssign, ast.AnnAssign, ast.For, ast.With, ast.NamedExpr)):
            pass
    return (names - declared_global)


def params_of(fn: ast.FunctionDef) -> set[str]:
    a = fn.args
    out = {x.arg for x in [*a.posonlyargs, *a.args, *a.kwonlyargs]}
    if a.vararg:
        out.add(a.vararg.arg)
    if a.kwarg:
        out.add(a.kwarg.arg)
    return out


def possibly_unbound(fn: ast.FunctionDef) -> list[tuple[ast.Name, Node]]:
    """Uses of a local variable that is not definitely assigned on every path to the use.

    Forward must-analysis; along exception edges the bindings of the raising node itself
    are not available; `for` targets are bound on the body edge only."""
    cfg = cfg_of(fn)
    locals_ = local_names(fn)
    params = params_of(fn)
    # names bound only by comprehensions are not locals of fn
    comp_only = set()
    for x in walk_no_nested(fn):
        if isinstance(x, ast.comprehension):
            comp_only.update(_targets(x.target))
    real_store = set()
    for n in cfg.nodes:
        real_store |= node_defs(n)
    locals_ = (locals_ & real_store) - params
    if not locals_:
        return []
    reach = cfg.reachable_nodes()
    TOP = None
    IN: dict[int, set | None] = {i: TOP for i in reach}
    IN[cfg.entry.id] = set()
    work = [cfg.entry.id]
    defs = {n.id: node_defs(n) & locals_ for n in cfg.nodes}
    while work:
        i = work.pop()
        cur = IN[i]
        n = cfg.nodes[i]
        for j, lab in cfg.succ[i]:
            if j not in reach:
                continue
            if lab == "e":
                out = cur
            elif n.kind == "for" and lab == "exh":
                out = cur
            else:
                out = cur | defs[i]
            old = IN[j]
            new = set(out) if old is None else (old & out)
            if old is None or new != old:
                IN[j] = new
                work.append(j)
    hits = []
    seen = set()
    for i in reach:
        n = cfg.nodes[i]
        cur = IN[i] or set()
        walrus = set()
        if n.expr is not None:
            for x in walk_no_nested(n.expr):
                if isinstance(x, ast.NamedExpr):
                    walrus.update(_targets(x.target))
        for u in node_uses(n):
            if u.id in walrus:
                continue  # bound inside the same expression (evaluation order not modelled)
            if u.id in locals_ and u.id not in cur:
                # a use in the same node after a walrus binding is fine
                key = (u.id, getattr(n.ast, "lineno", 0), n.kind)
                if key in seen:
                    continue
                seen.add(key)
                hits.append((u, n))
    return hits


def reaching_defs(fn: ast.FunctionDef) -> tuple[CFG, dict[int, dict[str, set[int]]]]:
    """IN[node] : name -> set of defining node ids (-1 = parameter / undefined)."""
    cfg = cfg_of(fn)
    reach = cfg.reachable_nodes()
    params = params_of(fn)
    IN: dict[int, dict[str, set[int]]] = {i: {} for i in reach}
    IN[cfg.entry.id] = {p: {-1} for p in params}
    defs = {n.id: node_defs(n) for n in cfg.nodes}
    work = [cfg.entry.id]
    while work:
        i = work.pop()
        cur = IN[i]
        n = cfg.nodes[i]
        for j, lab in cfg.succ[i]:
            if j not in reach:
                continue
            if lab == "e" or (n.kind == "for" and lab == "exh"):
                out = cur
            else:
                out = dict(cur)
                for d in defs[i]:
                    out[d] = {i}
            tgt = IN[j]
            changed = False
            for k, v in out.items():
                s = tgt.get(k)
                if s is None:
                    tgt[k] = set(v)
                    changed = True
                elif not v <= s:
                    s |= v
                    changed = True
            if changed or (j != cfg.entry.id and not tgt and not out and j not in _visited(work)):
                work.append(j)
    return cfg, IN


def _visited(work):  # tiny helper to keep the loop above simple
    return set(work)


def _unpacked(fn, target, value, name: str, depth: int = 2):
    """the element bound to `name` by `a, b = <value>` when the value is a tuple / list display of the same length (or a
    local whose single definition is one); None when it cannot be told"""
    if not isinstance(target, (ast.Tuple, ast.List)) or any(isinstance(e, ast.Starred) for e in target.elts):
        return None
    v = value
    if isinstance(v, ast.Name) and depth > 0:
        cands = []
        for x in walk_no_nested(fn):
            if isinstance(x, ast.Assign) and len(x.targets) == 1 and isinstance(x.targets[0], ast.Name) and x.targets[0].id == v.id:
                cands.append(x.value)
            elif isinstance(x, (ast.Assign, ast.AugAssign, ast.AnnAssign, ast.For, ast.NamedExpr)) and any(isinstance(y, ast.Name) and y.id == v.id and isinstance(y.ctx, ast.Store) for y in ast.walk(x.targets[0] if isinstance(x, ast.Assign) else x.target)):
                cands.append(None)
        if len(cands) == 1 and cands[0] is not None:
            v = cands[0]
    if isinstance(v, (ast.Tuple, ast.List)) and len(v.elts) == len(target.elts) and not any(isinstance(e, ast.Starred) for e in v.elts):
        for t, e in zip(target.elts, v.elts):
            if isinstance(t, ast.Name) and t.id == name:
                return e
            if isinstance(t, (ast.Tuple, ast.List)):
                r = _unpacked(fn, t, e, name, depth)
                if r is not None:
                    return r
    return None


def single_def_value(fn: ast.FunctionDef, name: str) -> ast.AST | None:
    """If `name` is assigned exactly once in fn by a plain `name = expr`, return expr."""
    vals = []
    for x in walk_no_nested(fn):
        if isinstance(x, ast.Assign):
            for t in x.targets:
                if isinstance(t, ast.Name) and t.id == name:
                    vals.append(x.value)
                elif name in _targets(t):
                    vals.append(_unpacked(fn, t, x.value, name))
        elif isinstance(x, (ast.AugAssign, ast.AnnAssign)) and name in _targets(x.target):
            vals.append(getattr(x, "value", None) if isinstance(x, ast.AnnAssign) else None)
        elif isinstance(x, (ast.For, ast.comprehension)) and name in _targets(x.target):
            vals.append(None)
        elif isinstance(x, ast.NamedExpr) and name in _targets(x.target):
            vals.append(x.value)
        elif isinstance(x, ast.withitem) and x.optional_vars is not None and name in _targets(x.optional_vars):
            vals.append(None)
    if len(vals) == 1:
        return vals[0]
    return None


def all_def_values(fn: ast.FunctionDef, name: str) -> list[ast.AST | None]:
    vals: list = []
    for x in walk_no_nested(fn):
        if isinstance(x, ast.Assign):
            for t in x.targets:
                if isinstance(t, ast.Name) and t.id == name:
                    vals.append(x.value)
                elif name in _targets(t):
                    vals.append(_unpacked(fn, t, x.value, name))
        elif isinstance(x, ast.AugAssign) and name in _targets(x.target):
            vals.append(None)
        elif isinstance(x, ast.AnnAssign) and name in _targets(x.target) and x.value is not None:
            vals.append(x.value)
        elif isinstance(x, (ast.For, ast.comprehension)) and name in _targets(x.target):
            vals.append(None)
        elif isinstance(x, ast.NamedExpr) and name in _targets(x.target):
            vals.append(x.value)
        elif isinstance(x, ast.withitem) and x.optional_vars is not None and name in _targets(x.optional_vars):
            vals.append(None)
    return vals


def names_in(expr: ast.AST) -> set[str]:
    return {x.id for x in walk_no_nested(expr) if isinstance(x, ast.Name)}


def depends_on(fn: ast.FunctionDef, expr: ast.AST, pred, *, depth: int = 6, _seen=None) -> bool:
    """Backward data slice (flow-insensitive over local assignments): does `expr`
    depend on a sub-expression satisfying pred?"""
    _seen = _seen if _seen is not None else set()
    for x in walk_no_nested(expr):
        if pred(x):
            return True
    if depth <= 0:
        return False
    for nm in names_in(expr):
        if nm in _seen:
            continue
        _seen.add(nm)
        for v in all_def_values(fn, nm):
            if v is not None and depends_on(fn, v, pred, depth=depth - 1, _seen=_seen):
                return True
        # loop / unpack definitions: follow the iterable
        for x in walk_no_nested(fn):
            if isinstance(x, (ast.For, ast.comprehension)) and nm in _targets(x.target):
                if depends_on(fn, x.iter, pred, depth=depth - 1, _seen=_seen):
                    return True
            elif isinstance(x, ast.Assign) and any(nm in _targets(t) and not isinstance(t, ast.Name) for t in x.targets):
                if depends_on(fn, x.value, pred, depth=depth - 1, _seen=_seen):
                    return True
    return False
