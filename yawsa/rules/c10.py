"""C10 — redshift-bin membership follows the closed-side rule everywhere.

R1 every redshift->bin assignment site takes its inner-edge side from Binning.closed with the
   right polarity, filters the out-of-range indices exactly, and maps index -> bin without shift.
R2 empty bins / patches are total: no possibly-unbound local on any path of the functions
   reachable from the binning entry points.
R3 the closed side flows configuration -> build_trees(closed=) -> Binning(closed=) unaltered.
R4 per-bin weight sums of a measurement come from the trees (one binning, not two).
"""

from __future__ import annotations

import ast

from ..cfg import cfg_of
from ..dataflow import all_def_values, depends_on, possibly_unbound
from ..effects import Unknown, ceval, summaries
from ..model import AnalysisError, FuncInfo, dotted, norm_stmt, unparse, walk_no_nested
from .common import QUICK, THOROUGH, calls_in, kwarg, parents_map

EXPLANATION = (
    "Static analysis on /repo's current source. R1 finds every call of a binning primitive (numpy.digitize, "
    "searchsorted, histogram*, bincount, pandas.cut) whose bin argument is data-dependent on Binning.edges, and "
    "decides by evaluating the side selector for closed=left and closed=right that the inner-edge side is taken from "
    "Binning.closed with the polarity the primitive documents; a primitive without selector (numpy.histogram) is a "
    "violation on any path where closed may be 'right'. The out-of-range filter and the index->bin mapping are "
    "evaluated on the boundary indices {0,1,N,N+1}. R2 is a definite-assignment analysis (CFG with exception and "
    "zero-iteration edges) over all functions reachable from the tree-building, histogram and pair-count entry "
    "points. R3/R4 are def-use / parameter-liveness rules."
)
ASSUMPTIONS = [
    "numpy.digitize(x, bins, right=True) assigns bins[i-1] < x <= bins[i]; right=False assigns bins[i-1] <= x < bins[i]",
    "numpy.searchsorted(a, v, side='left') returns i with a[i-1] < v <= a[i]; side='right' a[i-1] <= v < a[i]",
    "numpy.histogram bins are closed on the left, the last bin is closed on both sides",
    "a for loop may execute zero times; a statement containing a call may raise",
]

BIN_APIS = {"numpy.digitize": "digitize", "numpy.searchsorted": "searchsorted", "numpy.histogram": "histogram", "numpy.histogram2d": "histogram", "numpy.histogramdd": "histogram", "numpy.bincount": "bincount", "pandas.cut": "cut"}


def _edges_dep(fn, e) -> bool:
    return depends_on(fn, e, lambda x: isinstance(x, ast.Attribute) and x.attr in ("edges", "left", "right") or (isinstance(x, ast.Attribute) and x.attr == "binning"))


def _closed_exprs(fn) -> list[str]:
    """source texts of `<something>.closed` expressions in fn"""
    return sorted({unparse(x) for x in ast.walk(fn) if isinstance(x, ast.Attribute) and x.attr == "closed"})


def _eval_for_closed(fn, expr, closed: str):
    env = {}
    for t in _closed_exprs(fn):
        env[t] = closed
    # resolve local single definitions
    e = expr
    for _ in range(4):
        if isinstance(e, ast.Name):
            vals = [v for v in all_def_values(fn, e.id) if v is not None]
            if len(vals) == 1:
                e = vals[0]
                continue
        break
    return ceval(e, env)


def rule_r1(prog, res) -> None:
    """bin-assignment sites take the inner-edge side from Binning.closed; exact range filter; no index shift"""
    sites = 0
    for fi in prog.funcs:
        for call in calls_in(fi):
            tg = prog.resolve_call(fi, call)
            api = next((BIN_APIS[n] for n in tg.ext_names() if n in BIN_APIS), None)
            if api is None or api == "bincount":
                continue
            fn = fi.node
            if api in ("digitize", "histogram", "cut"):
                bins = call.args[1] if len(call.args) > 1 else kwarg(call, "bins")
            else:
                bins = call.args[0] if call.args else kwarg(call, "a")
            if bins is None or not _edges_dep(fn, bins):
                continue
            sites += 1
            res.touch(fi)
            site = res.site(fi, norm_stmt(call)[:70])
            # the bin argument must be the edges as they are
            b = bins
            if isinstance(b, ast.Name):
                vals = [v for v in all_def_values(fn, b.id) if v is not None]
                if len(vals) == 1:
                    b = vals[0]
            if not (isinstance(b, ast.Attribute) or isinstance(b, ast.Name)):
                raise AnalysisError(f"C10.R1: bin argument of {api} in {fi.short} is a transformed edge array ({unparse(bins)}): idiom not recognised")
            if api == "digitize":
                sel = kwarg(call, "right") or (call.args[2] if len(call.args) > 2 else None)
                want = {"right": True, "left": False}
                what = "right="
            elif api == "searchsorted":
                sel = kwarg(call, "side") or (call.args[2] if len(call.args) > 2 else None)
                want = {"right": "left", "left": "right"}
                what = "side="
            elif api == "cut":
                sel = kwarg(call, "right")
                want = {"right": True, "left": False}
                what = "right="
            else:
                sel = None
            if api == "histogram":
                # accepted only where closed == left is established by a dominating guard
                cfg = cfg_of(fn)
                guarded = True
                for n in cfg.node_containing(call):
                    g_ok = False
                    for test, pol in cfg.guards(n):
                        try:
                            if bool(_eval_for_closed(fn, test, "left")) == bool(pol) and bool(_eval_for_closed(fn, test, "right")) != bool(pol):
                                g_ok = True
                        except Unknown:
                            continue
                    guarded = guarded and g_ok
                if guarded:
                    res.ok("C10.R1", site, "numpy.histogram only reached when closed == left")
                else:
                    res.violation(
                        "C10.R1",
                        fi,
                        call,
                        "numpy.histogram has left-closed inner edges but is reached when the binning is closed on the right: a redshift exactly "
                        "on an inner edge is counted in the upper bin while the trees put it into the lower bin",
                        key_extra="histogram-on-closed-right",
                    )
                continue
            if sel is None:
                default_closed = "left" if api in ("digitize",) else "right"
                res.violation("C10.R1", fi, call, f"{api} is called without {what}: the inner-edge side is fixed to closed={default_closed} regardless of Binning.closed", key_extra=f"{api}-no-side")
                continue
            try:
                got = {c: _eval_for_closed(fn, sel, c) for c in ("right", "left")}
            except Unknown as err:
                if not depends_on(fn, sel, lambda x: isinstance(x, ast.Attribute) and x.attr == "closed"):
                    res.violation("C10.R1", fi, call, f"{what}{unparse(sel)} does not depend on Binning.closed", key_extra=f"{api}-side-not-from-closed")
                    continue
                raise AnalysisError(f"C10.R1: cannot evaluate side selector {unparse(sel)} in {fi.short} ({err})")
            norm = lambda v: bool(v) if isinstance(want["right"], bool) else v  # noqa: E731
            if all(norm(got[c]) == want[c] for c in ("right", "left")):
                res.ok("C10.R1", site, f"{what}{unparse(sel)} evaluates to {got['right']!r} for closed=right and {got['left']!r} for closed=left")
            else:
                res.violation(
                    "C10.R1",
                    fi,
                    call,
                    f"side selector {what}{unparse(sel)} gives {got['right']!r} for closed=right and {got['left']!r} for closed=left; "
                    f"{api} needs {want['right']!r} / {want['left']!r}: redshifts on bin edges go to the wrong bin",
                    key_extra=f"{api}-side-polarity",
                )
                continue
            # ---- out-of-range filter and index -> bin mapping of this site's indices
            _check_filter(prog, res, fi, call)
    if sites < 2:
        raise AnalysisError(f"C10.R1: only {sites} bin-assignment sites found, hand-confirmed minimum is 2")


def _index_names(fn, call) -> set[str]:
    pm = parents_map(fn)
    p = pm.get(id(call))
    names: set[str] = set()
    if isinstance(p, ast.Assign):
        for t in p.targets:
            if isinstance(t, ast.Name):
                names.add(t.id)
    # loop variables iterating groupby(idx, …) / unique(idx): first target element is the index value
    for x in walk_no_nested(fn):
        if isinstance(x, (ast.For, ast.comprehension)) and isinstance(x.iter, ast.Call) and x.iter.args:
            a0 = x.iter.args[0]
            if isinstance(a0, ast.Name) and a0.id in names:
                t = x.target
                if isinstance(t, (ast.Tuple, ast.List)) and t.elts and isinstance(t.elts[0], ast.Name):
                    names.add(t.elts[0].id)
                elif isinstance(t, ast.Name):
                    names.add(t.id)
    return names


from .common import expand_locals as _expand_locals  # noqa: E402


def _check_filter(prog, res, fi: FuncInfo, call: ast.Call) -> None:
    fn = fi.node
    idx = _index_names(fn, call)
    if not idx:
        raise AnalysisError(f"C10.R1: result of the bin assignment in {fi.short} is not bound to a name")
    N = 5
    len_texts = {unparse(x) for x in ast.walk(fn) if isinstance(x, ast.Call) and isinstance(x.func, ast.Name) and x.func.id == "len"}
    num_texts = {unparse(x) for x in ast.walk(fn) if isinstance(x, ast.Attribute) and x.attr in ("num_bins",)}
    filt = []
    for x in walk_no_nested(fn):
        if isinstance(x, (ast.Compare, ast.BinOp, ast.BoolOp)):
            names = {n.id for n in ast.walk(x) if isinstance(n, ast.Name)}
            if names & idx and isinstance(x, ast.Compare):
                filt.append(x)
    # keep only maximal boolean expressions that mention the index
    pm = parents_map(fn)
    tops = []
    for c in filt:
        t = c
        while isinstance(pm.get(id(t)), (ast.BoolOp, ast.BinOp, ast.UnaryOp)):
            t = pm[id(t)]
        if t not in tops:
            tops.append(t)
    if not tops:
        res.violation("C10.R1", fi, call, "indices of the bin assignment are used without filtering the out-of-range values 0 and N+1 (objects outside the binning are counted)", key_extra="no-range-filter")
        return
    ok_any = False

    def rejects(t) -> bool:
        """the test selects what is SKIPPED: `if <t>: continue` / `if <t>: pass else: <use>`"""
        par = pm.get(id(t))
        if isinstance(par, ast.If) and par.test is t:
            skip = lambda body: bool(body) and all(isinstance(x, (ast.Continue, ast.Pass)) or (isinstance(x, ast.Expr) and isinstance(x.value, ast.Constant)) for x in body)  # noqa: E731
            return skip(par.body) and (not par.orelse or not skip(par.orelse))
        return False

    for t in tops:
        vals = {}
        try:
            tx = _expand_locals(fn, t, idx)
            neg = rejects(t)
            for i in (0, 1, N, N + 1):
                env = {nm: i for nm in idx}
                for lt in len_texts | num_texts:
                    env[lt] = N
                vals[i] = bool(ceval(tx, env)) != neg
        except Unknown:
            continue
        if vals == {0: False, 1: True, N: True, N + 1: False}:
            ok_any = True
            res.ok("C10.R1", res.site(fi, unparse(t)), "range filter keeps exactly the indices 1..N (evaluated at 0, 1, N, N+1)")
        else:
            res.violation(
                "C10.R1",
                fi,
                t,
                f"range filter {unparse(t)} keeps {sorted(k for k, v in vals.items() if v)} of the boundary indices {{0,1,N,N+1}} (N={N}); it must keep exactly 1 and N: "
                "objects outside the binning are counted or edge bins are dropped",
                key_extra="range-filter-bounds",
            )
            return
    if not ok_any:
        raise AnalysisError(f"C10.R1: cannot evaluate the range filter of the bin indices in {fi.short}")
    # index -> bin mapping through bincount: the counted value must be index - 1
    for c in calls_in(fi):
        if "numpy.bincount" in prog.resolve_call(fi, c).ext_names() and c.args:
            arg = c.args[0]
            if not ({n.id for n in ast.walk(arg) if isinstance(n, ast.Name)} & idx):
                continue
            env = {nm: 1 for nm in idx}
            for y in ast.walk(arg):
                if isinstance(y, ast.Subscript) and isinstance(y.value, ast.Name) and y.value.id in idx:
                    env[unparse(y)] = 1
            try:
                v = ceval(arg, env)
            except Unknown:
                raise AnalysisError(f"C10.R1: cannot evaluate the bincount argument {unparse(arg)} in {fi.short}")
            if v == 0:
                res.ok("C10.R1", res.site(fi, unparse(arg)), "bincount receives index-1: the first bin is column 0")
            else:
                res.violation("C10.R1", fi, c, f"bincount receives {unparse(arg)} (= {v} for the first bin, must be 0): every bin is shifted", key_extra="bincount-shift")
            ml = kwarg(c, "minlength")
            if ml is None:
                res.violation("C10.R1", fi, c, "bincount without minlength: trailing empty bins are dropped instead of yielding zeros", key_extra="bincount-minlength")
    # index -> bin mapping: expression used to look the per-bin object up, for bin position j
    for x in walk_no_nested(fn):
        if isinstance(x, (ast.GeneratorExp, ast.ListComp)) and len(x.generators) == 1:
            g = x.generators[0]
            if isinstance(g.iter, ast.Call) and isinstance(g.iter.func, ast.Name) and g.iter.func.id == "range" and isinstance(g.target, ast.Name):
                j = g.target.id
                keys = []
                for y in ast.walk(x.elt):
                    if isinstance(y, ast.Call) and isinstance(y.func, ast.Attribute) and y.func.attr == "get" and y.args:
                        keys.append(y.args[0])
                    elif isinstance(y, ast.Subscript) and not isinstance(y.slice, ast.Slice):
                        keys.append(y.slice)
                lenv = {lt: N for lt in len_texts | num_texts}
                try:
                    rng = list(ceval(_expand_locals(fn, g.iter, {j}), lenv))
                except (Unknown, TypeError):
                    continue
                for k in keys:
                    if not any(isinstance(y, ast.Name) and y.id == j for y in ast.walk(k)):
                        continue
                    try:
                        got = [ceval(_expand_locals(fn, k, {j}), {j: v, **lenv}) for v in rng]
                    except Unknown:
                        continue
                    # position p of the result holds the object of digitize index p+1, for all N bins
                    if got == list(range(1, N + 1)):
                        res.ok("C10.R1", res.site(fi, unparse(k)), f"bin positions 0..N-1 look up the bin indices 1..N (evaluated for N={N})")
                    else:
                        res.violation("C10.R1", fi, k, f"bin positions 0..N-1 are filled from the indices {got} (N={N}) through {unparse(k)}; digitize numbers the bins 1..N: bins are shifted or dropped", key_extra="bin-index-shift")


def _entry_points(prog) -> list[FuncInfo]:
    names = ["BinnedTrees.build", "HistData.from_catalog", "autocorrelate", "crosscorrelate", "process_patch_pair", "_redshift_histogram", "build_trees"]
    out = []
    for n in names:
        out.extend(prog.find_funcs(n))
    if len(out) < 6:
        raise AnalysisError("C10.R2: binning entry points vanished")
    return out


def rule_r2(prog, res) -> None:
    """empty bins/patches are total: definite assignment on all reachable functions"""
    S = summaries(prog)
    funcs = set()
    for e in _entry_points(prog):
        funcs |= S.reachable(e)
    funcs = {f for f in funcs if not f.module.name.startswith(("yaw.utils.logging", "yaw.utils.plotting"))}
    if res.tier == "thorough":
        funcs = set(prog.funcs)
    if len(funcs) < 10:
        raise AnalysisError("C10.R2: call-graph closure of the binning entry points is implausibly small")
    for f in sorted(funcs, key=lambda f: f.key):
        res.touch(f)
        hits = possibly_unbound(f.node)
        if not hits:
            res.ok("C10.R2", res.site(f), "every local is definitely assigned before use on all CFG paths", nontrivial=bool(hits))
            continue
        for u, n in hits:
            res.violation(
                "C10.R2",
                f,
                n.ast,
                f"local variable '{u.id}' is unbound on a path where a loop body or branch did not execute (e.g. no object inside the binning): "
                "UnboundLocalError instead of zeros",
                key_extra=f"unbound-{u.id}",
            )


def rule_r3(prog, res) -> None:
    """closed side flows configuration -> build_trees(closed=) -> Binning(closed=)"""
    n = 0
    from .c01 import _measure_paths

    for name in ("autocorrelate", "crosscorrelate"):
        for fi in prog.find_funcs(name):
            res.touch(fi)
            cfg_param = next((q for q in fi.param_names() if "config" in q), "config")
            seen = set()
            # every binned build on every path, for every combination of optional inputs (loops over lists of
            # catalogs unrolled, **kwargs dictionaries substituted)
            for env, p in _measure_paths(prog, fi):
                for ev in p.calls("build_trees"):
                    call = ev.expr
                    first = call.args[0] if call.args else kwarg(call, "binning")
                    if first is None or (isinstance(first, ast.Constant) and first.value is None):
                        continue  # unbinned build: no closed side involved
                    recv = unparse(call.func.value) if isinstance(call.func, ast.Attribute) else "?"
                    if (id(ev.node), recv) in seen:
                        continue
                    seen.add((id(ev.node), recv))
                    n += 1
                    c = kwarg(call, "closed")
                    if c is None:
                        for k in call.keywords:
                            if k.arg is None and isinstance(k.value, ast.Dict):
                                for kk, vv in zip(k.value.keys, k.value.values):
                                    if isinstance(kk, ast.Constant) and kk.value == "closed":
                                        c = vv
                    from_cfg = c is not None and any(isinstance(x, ast.Attribute) and x.attr == "closed" and any(isinstance(y, ast.Name) and y.id == cfg_param for y in ast.walk(x.value)) for x in ast.walk(c))
                    if c is None:
                        res.violation("C10.R3", fi, ev.node, "binned build_trees call does not pass closed=: trees are built with the default side regardless of the configuration", key_extra=f"no-closed-{recv}")
                    elif not from_cfg:
                        res.violation("C10.R3", fi, ev.node, f"closed={unparse(c)[:40]} is not taken from config.binning.closed", key_extra=f"closed-not-from-config-{recv}")
                    else:
                        res.ok("C10.R3", res.site(fi, f"{recv}.build_trees"), "closed= is config.binning.closed")
    if n < 4:
        raise AnalysisError(f"C10.R3: only {n} binned build_trees calls found in the measurement entry points (minimum 4)")
    # Catalog.build_trees forwards its parameter into Binning(…, closed=…)
    bt = prog.func("Catalog.build_trees")
    res.touch(bt)
    okb = False
    for call in calls_in(bt):
        if any(c.name == "Binning" for c in prog.resolve_call(bt, call).classes()):
            c = kwarg(call, "closed") or (call.args[1] if len(call.args) > 1 else None)
            if c is not None and isinstance(c, ast.Name) and c.id in bt.param_names() and not [v for v in all_def_values(bt.node, c.id)]:
                okb = True
            else:
                res.violation("C10.R3", bt, call, "Catalog.build_trees does not forward its closed parameter unchanged into Binning(...)", key_extra="binning-closed-not-forwarded")
    if okb:
        res.ok("C10.R3", res.site(bt, "Binning(binning, closed=closed)"), "parameter forwarded unchanged")
    elif not res.findings:
        raise AnalysisError("C10.R3: Binning construction vanished from Catalog.build_trees")
    # the task callable receives this very binning object
    for call in calls_in(bt):
        if any(t.name == "iter_unordered" for t in prog.resolve_call(bt, call).funcs()):
            fa = kwarg(call, "func_args")
            if fa is not None and depends_on(bt.node, fa, lambda x: isinstance(x, ast.Name) and x.id == "binning"):
                res.ok("C10.R3", res.site(bt, "func_args"), "the Binning object is handed to BinnedTrees.build")
            else:
                res.violation("C10.R3", bt, call, "the Binning object (with its closed side) is not handed to the tree builder", key_extra="binning-not-passed")
    # Binning.__init__ stores closed from its parameter
    bi = prog.func("Binning.__init__")
    stores = [x for x in walk_no_nested(bi.node) if isinstance(x, ast.Assign) and any(isinstance(t, ast.Attribute) and t.attr == "closed" for t in x.targets)]
    if stores and all(depends_on(bi.node, s.value, lambda y: isinstance(y, ast.Name) and y.id == "closed") for s in stores):
        res.ok("C10.R3", res.site(bi), "Binning.closed is set from the constructor parameter")
    else:
        res.violation("C10.R3", bi, bi.node, "Binning.closed is not set from the constructor parameter", key_extra="binning-init-closed")


def rule_r4(prog, res) -> None:
    """the closed side (and the edges) of a binning survive the trip to a worker process (pickle state protocol, shared with C05.R5)"""
    from . import c05
    from .common import shared_rule

    shared_rule(res, c05.rule_r5, "C05", "C05.R5", "C10.R4")


def rule_r5(prog, res) -> None:
    """no hand-written range test against the outer bin edges: which of `<` / `<=` is right depends on the closed side,
    so an ordering comparison with edges[0] / edges[-1] (or zmin / zmax of a binning) must itself depend on Binning.closed;
    the library's bin assignment (digitize + exact index filter, R1) already decides membership"""
    n = 0
    for fi in prog.funcs:
        if not fi.module.name.startswith(("yaw.catalog", "yaw.redshifts", "yaw.correlation", "yaw.binning")):
            continue
        pm = None
        for x in walk_no_nested(fi.node):
            if not (isinstance(x, ast.Compare) and any(isinstance(o, (ast.Lt, ast.LtE, ast.Gt, ast.GtE)) for o in x.ops)):
                continue
            sides = [x.left, *x.comparators]

            def outer_edge(e) -> bool:
                if isinstance(e, ast.Subscript) and isinstance(e.value, ast.Attribute) and e.value.attr == "edges":
                    try:
                        return ceval(e.slice, {}) in (0, -1)
                    except Unknown:
                        return False
                if isinstance(e, ast.Call) and isinstance(e.func, ast.Attribute) and e.func.attr in ("min", "max") and isinstance(e.func.value, ast.Attribute) and e.func.value.attr == "edges":
                    return True
                if isinstance(e, ast.Name):
                    v = [d for d in all_def_values(fi.node, e.id) if d is not None]
                    return len(v) == 1 and outer_edge(v[0])
                return False

            if not any(outer_edge(e) for e in sides):
                continue
            others = [e for e in sides if not outer_edge(e)]
            if all(isinstance(e, ast.Constant) for e in others):
                continue  # validation of the edges themselves
            n += 1
            res.touch(fi)
            pm = pm or parents_map(fi.node)
            cur, aware = x, False
            while id(cur) in pm and not isinstance(cur, ast.stmt):
                cur = pm[id(cur)]
            aware = any(isinstance(y, ast.Attribute) and y.attr == "closed" for y in ast.walk(cur)) or depends_on(fi.node, cur.value if hasattr(cur, "value") and cur.value is not None else x, lambda y: isinstance(y, ast.Attribute) and y.attr == "closed")
            guards_closed = False
            if not aware:
                cfg = cfg_of(fi.node)
                for nd in cfg.node_containing(x):
                    if any(any(isinstance(y, ast.Attribute) and y.attr == "closed" for y in ast.walk(t)) for t, _ in cfg.guards(nd)):
                        guards_closed = True
            if aware or guards_closed:
                res.ok("C10.R5", res.site(fi, unparse(x)[:50]), "range test against an outer edge depends on the closed side")
            else:
                res.violation(
                    "C10.R5",
                    fi,
                    x,
                    f"`{unparse(x)[:70]}` tests values against an outer bin edge with a fixed strictness: for the other closed side an object exactly on that edge is dropped (or kept) although the binning "
                    "contains (excludes) it",
                    key_extra=f"outer-edge-compare-{fi.qualname}",
                )
    if n == 0:
        res.ok("C10.R5", "no manual range tests", "no ordering comparison against an outer bin edge outside the bin-assignment sites", nontrivial=False)


def rule_r6(prog, res) -> None:
    """the closed side survives copies, selections and sums of a binning (shared with C17.R8): a method that builds a
    new instance of its own class passes every state-carrying defaulted constructor parameter — `closed` among them"""
    from . import c17
    from .common import shared_rule

    shared_rule(res, c17.rule_r8, "C17", "C17.R8", "C10.R6")


def _single_defs(fn) -> dict:
    """local name -> value, for names assigned exactly once in the function"""
    out: dict = {}
    cnt: dict = {}
    for x in walk_no_nested(fn):
        if isinstance(x, ast.Assign) and len(x.targets) == 1 and isinstance(x.targets[0], ast.Name):
            cnt[x.targets[0].id] = cnt.get(x.targets[0].id, 0) + 1
            out[x.targets[0].id] = x.value
        elif isinstance(x, ast.Assign) and len(x.targets) == 1 and isinstance(x.targets[0], (ast.Tuple, ast.List)) and isinstance(x.value, (ast.Tuple, ast.List)) and len(x.targets[0].elts) == len(x.value.elts):
            # lower, upper = edges[:-1], edges[1:]
            for t_, v_ in zip(x.targets[0].elts, x.value.elts):
                if isinstance(t_, ast.Name) and not isinstance(v_, ast.Starred):
                    cnt[t_.id] = cnt.get(t_.id, 0) + 1
                    out[t_.id] = v_
    return {k: v for k, v in out.items() if cnt[k] == 1}


def rule_r7(prog, res) -> None:
    """the derived quantities of a binning are what their names say, for every number of bins: `left` / `right` are all
    edges but the last / the first, `dz` the differences of adjacent edges, `mids` the arithmetic mean of adjacent edges
    (the redshift at which the counting angle of a bin is evaluated, at which n(z) is plotted and normalised); and the
    edge validator rejects arrays that are not one-dimensional or have fewer than two edges.  Folded numerically on a
    witness binning (edges 1, 2, 4, 8) with slices, +, -, *, /, numpy.diff."""
    b = prog.find_class("Binning")
    W = (1.0, 2.0, 4.0, 8.0)
    want = {"left": W[:-1], "right": W[1:], "dz": tuple(b_ - a_ for a_, b_ in zip(W, W[1:])), "mids": tuple((a_ + b_) / 2 for a_, b_ in zip(W, W[1:]))}

    local_defs: dict = {}

    def ev(e, depth=0):
        if depth > 8:
            raise Unknown("depth")
        if isinstance(e, ast.Constant):
            return e.value
        if isinstance(e, ast.Name) and e.id in local_defs:
            return ev(local_defs[e.id], depth + 1)
        if isinstance(e, ast.Attribute) and isinstance(e.value, ast.Name) and e.value.id == "self":
            if e.attr == "edges":
                return W
            m_ = b.methods.get(e.attr)
            if m_ is not None and m_.is_property:
                r_ = [x.value for x in walk_no_nested(m_.node) if isinstance(x, ast.Return) and x.value is not None]
                if len(r_) == 1:
                    saved = dict(local_defs)
                    local_defs.clear()
                    local_defs.update(_single_defs(m_.node))
                    try:
                        return ev(r_[0], depth + 1)
                    finally:
                        local_defs.clear()
                        local_defs.update(saved)
            raise Unknown(unparse(e))
        if isinstance(e, ast.Subscript) and isinstance(e.slice, ast.Slice) and e.slice.step is None:
            v = ev(e.value, depth + 1)
            lo = ev(e.slice.lower, depth + 1) if e.slice.lower is not None else None
            hi = ev(e.slice.upper, depth + 1) if e.slice.upper is not None else None
            return tuple(v[lo:hi])
        if isinstance(e, ast.UnaryOp) and isinstance(e.op, ast.USub):
            return -ev(e.operand, depth + 1)
        if isinstance(e, ast.BinOp) and isinstance(e.op, (ast.Add, ast.Sub, ast.Mult, ast.Div)):
            l, r = ev(e.left, depth + 1), ev(e.right, depth + 1)
            f = {ast.Add: lambda a_, b_: a_ + b_, ast.Sub: lambda a_, b_: a_ - b_, ast.Mult: lambda a_, b_: a_ * b_, ast.Div: lambda a_, b_: a_ / b_}[type(e.op)]
            if isinstance(l, tuple) and isinstance(r, tuple):
                if len(l) != len(r):
                    raise Unknown("shape")
                return tuple(f(a_, b_) for a_, b_ in zip(l, r))
            if isinstance(l, tuple):
                return tuple(f(a_, r) for a_ in l)
            if isinstance(r, tuple):
                return tuple(f(l, b_) for b_ in r)
            return f(l, r)
        if isinstance(e, ast.Call) and (dotted(e.func) or "").split(".")[-1] == "diff" and len(e.args) == 1 and not e.keywords:
            v = ev(e.args[0], depth + 1)
            return tuple(b_ - a_ for a_, b_ in zip(v, v[1:]))
        if isinstance(e, ast.Call) and (dotted(e.func) or "").split(".")[-1] in ("asarray", "array", "atleast_1d") and e.args:
            return ev(e.args[0], depth + 1)
        raise Unknown(unparse(e)[:40])

    n = 0
    for name, expect in want.items():
        m = b.methods.get(name)
        if m is None or not m.is_property:
            raise AnalysisError(f"C10.R7: Binning.{name} is no property any more")
        res.touch(m)
        rets = [x.value for x in walk_no_nested(m.node) if isinstance(x, ast.Return) and x.value is not None]
        if len(rets) != 1:
            raise AnalysisError(f"C10.R7: Binning.{name} has {len(rets)} return statements")
        local_defs.clear()
        local_defs.update(_single_defs(m.node))
        try:
            got = ev(rets[0])
        except Unknown as err:
            raise AnalysisError(f"C10.R7: cannot fold Binning.{name} ({err})") from None
        n += 1
        if isinstance(got, tuple) and len(got) == len(expect) and all(abs(a_ - b_) < 1e-12 for a_, b_ in zip(got, expect)):
            res.ok("C10.R7", res.site(m), f"edges {W} -> {got}")
        else:
            res.violation("C10.R7", m, rets[0], f"Binning.{name} gives {got} for the edges {W}, expected {expect}: every consumer of the bin {name} (counting angle per bin, n(z) normalisation, files) works with other redshifts than the bins have", key_extra=f"binning-{name}")
    # the validator of edges
    pb0 = prog.func("parse_binning")
    res.touch(pb0)
    from ..inline import inlined as _inl7

    pb = _inl7(prog, pb0, desugar=True)  # an extracted check helper is expanded in place
    prm = pb.param_names()[0]
    guards = [x for x in walk_no_nested(pb.node) if isinstance(x, ast.If) and any(isinstance(s_, ast.Raise) for s_ in x.body)]
    names = {prm}
    for _ in range(3):
        names |= {x.targets[0].id for x in walk_no_nested(pb.node) if isinstance(x, ast.Assign) and len(x.targets) == 1 and isinstance(x.targets[0], ast.Name) and any(isinstance(y, ast.Name) and y.id in names for y in ast.walk(x.value))}
    for what, ndim, ln, must in (("a valid array of three edges", 1, 3, False), ("a two-dimensional array", 2, 3, True), ("a single edge", 1, 1, True), ("a scalar", 0, 0, True)):
        env = {}
        for nm in names:
            env[f"{nm}.ndim"] = ndim
            env[f"len({nm})"] = ln
            env[f"{nm}.size"] = ln
            env[f"{nm}.shape"] = (ln,) * ndim
        fired = False
        for g in guards:
            try:
                fired = fired or bool(ceval(g.test, env))
            except (Unknown, TypeError):
                continue
        n += 1
        if fired == must:
            res.ok("C10.R7", res.site(pb0, what), "rejected" if must else "accepted by the shape checks")
        else:
            res.violation("C10.R7", pb0, pb0.node, f"parse_binning {'accepts' if must else 'rejects'} {what} (ndim={ndim}, len={ln}): " + ("a binning without a single complete bin / with matrix-valued edges gets through, the per-bin arrays downstream are empty or mis-shaped" if must else "valid edges are refused"), key_extra=f"parse-binning-{what[:20]}")
    if n < 8:
        raise AnalysisError(f"C10.R7: only {n} instances folded")


def rule_r8(prog, res) -> None:
    """the closed side survives the tree cache: what BinnedTrees writes into the binning marker of a patch (flag byte,
    then the edges) is what it reads back — a cache that restores the other closed side is compared "equal" to a
    request for it and its trees, binned under the old rule, are reused (= C07.R2)"""
    from . import c07
    from .common import shared_rule

    shared_rule(res, c07.rule_r2, "C07", "C07.R2", "C10.R8")


def rule_r9(prog, res) -> None:
    """two binnings are the same exactly when their edges and closed side are identical: the predicate that decides whether cached trees can be reused compares exactly (= C07.R1) — a tolerant comparison reuses trees binned with other edges, so the trees and the histograms of one run no longer apply one rule"""
    from . import c07
    from .common import shared_rule

    shared_rule(res, c07.rule_r1, "C07", "C07.R1", "C10.R9")


RULES = [
    ("C10.R1", rule_r1, QUICK),
    ("C10.R2", rule_r2, QUICK),
    ("C10.R3", rule_r3, QUICK),
    ("C10.R4", rule_r4, QUICK),
    ("C10.R5", rule_r5, QUICK),
    ("C10.R6", rule_r6, QUICK),
    ("C10.R7", rule_r7, QUICK),
    ("C10.R8", rule_r8, QUICK),
    ("C10.R9", rule_r9, QUICK),
]
