"""A6: affine and polynomial/rational normal forms (canonicalisation, not solving).

affine(expr)  ->  {atom_text: coeff, "1": const}          (+, -, * by constant)
poly(expr)    ->  Fraction-coefficient polynomial over atoms, as (numerator, denominator)
                  pair of {monomial(tuple of (atom, power)): coeff}; uninterpreted functions
                  (sqrt, nansum, …) become atoms whose text contains their normalised argument.
Names are substituted through `resolve(name)` (single local definition) when given."""

from __future__ import annotations

import ast
from fractions import Fraction

from .model import dotted, unparse


class NotAffine(Exception):
    pass


def _num(e: ast.AST):
    if isinstance(e, ast.Constant) and isinstance(e.value, (int, float)) and not isinstance(e.value, bool):
        return Fraction(e.value).limit_denominator(10**9) if isinstance(e.value, float) else Fraction(e.value)
    if isinstance(e, ast.UnaryOp) and isinstance(e.op, ast.USub):
        v = _num(e.operand)
        return -v if v is not None else None
    return None


def affine(e: ast.AST, resolve=None, _depth: int = 0) -> dict:
    def add(a: dict, b: dict, s=1) -> dict:
        out = dict(a)
        for k, v in b.items():
            out[k] = out.get(k, 0) + s * v
        return {k: v for k, v in out.items() if v != 0}

    def scale(a: dict, c) -> dict:
        return {k: v * c for k, v in a.items() if v * c != 0}

    n = _num(e)
    if n is not None:
        return {"1": n} if n != 0 else {}
    if isinstance(e, ast.Name) and resolve is not None and _depth < 6:
        d = resolve(e.id)
        if d is not None:
            return affine(d, resolve, _depth + 1)
    if isinstance(e, ast.BinOp):
        if isinstance(e.op, ast.Add):
            return add(affine(e.left, resolve, _depth), affine(e.right, resolve, _depth))
        if isinstance(e.op, ast.Sub):
            return add(affine(e.left, resolve, _depth), affine(e.right, resolve, _depth), -1)
        if isinstance(e.op, ast.Mult):
            l, r = affine(e.left, resolve, _depth), affine(e.right, resolve, _depth)
            if set(l) <= {"1"}:
                return scale(r, l.get("1", 0))
            if set(r) <= {"1"}:
                return scale(l, r.get("1", 0))
    if isinstance(e, ast.UnaryOp) and isinstance(e.op, ast.USub):
        return scale(affine(e.operand, resolve, _depth), -1)
    if isinstance(e, ast.UnaryOp) and isinstance(e.op, ast.UAdd):
        return affine(e.operand, resolve, _depth)
    return {unparse(e): Fraction(1)}


def affine_eq(a: dict, b: dict) -> bool:
    return {k: Fraction(v) for k, v in a.items() if v != 0} == {k: Fraction(v) for k, v in b.items() if v != 0}


def fmt_affine(a: dict) -> str:
    if not a:
        return "0"
    parts = []
    for k, v in sorted(a.items()):
        if k == "1":
            parts.append(f"{v}")
        else:
            parts.append(f"{'' if v == 1 else ('-' if v == -1 else str(v) + '*')}{k}")
    return " + ".join(parts).replace("+ -", "- ")


# ----------------------------------------------------------------------------- polynomials

Mono = tuple  # sorted tuple of (atom, power)


def _pmul(a: dict, b: dict) -> dict:
    out: dict = {}
    for m1, c1 in a.items():
        for m2, c2 in b.items():
            d = dict(m1)
            for at, p in m2:
                d[at] = d.get(at, 0) + p
            m = tuple(sorted((k, v) for k, v in d.items() if v != 0))
            out[m] = out.get(m, 0) + c1 * c2
    return {m: c for m, c in out.items() if c != 0}


def _padd(a: dict, b: dict, s=1) -> dict:
    out = dict(a)
    for m, c in b.items():
        out[m] = out.get(m, 0) + s * c
    return {m: c for m, c in out.items() if c != 0}


def _const(c) -> dict:
    return {(): Fraction(c)} if c != 0 else {}


def _atom(text: str) -> dict:
    return {((text, 1),): Fraction(1)}


class Rational:
    """numerator / denominator, both polynomials; equality by cross-multiplication."""

    def __init__(self, num: dict, den: dict | None = None) -> None:
        self.num = num
        self.den = den if den is not None else _const(1)

    def __add__(self, o):
        return Rational(_padd(_pmul(self.num, o.den), _pmul(o.num, self.den)), _pmul(self.den, o.den))

    def __sub__(self, o):
        return Rational(_padd(_pmul(self.num, o.den), _pmul(o.num, self.den), -1), _pmul(self.den, o.den))

    def __mul__(self, o):
        return Rational(_pmul(self.num, o.num), _pmul(self.den, o.den))

    def __truediv__(self, o):
        return Rational(_pmul(self.num, o.den), _pmul(self.den, o.num))

    def __neg__(self):
        return Rational(_padd({}, self.num, -1), self.den)

    def equals(self, o) -> bool:
        if not self.den or not o.den:
            return False
        return _padd(_pmul(self.num, o.den), _pmul(o.num, self.den), -1) == {}

    def canon(self) -> str:
        def ps(p):
            if not p:
                return "0"
            out = []
            for m, c in sorted(p.items()):
                mon = "*".join(f"{a}" + (f"^{k}" if k != 1 else "") for a, k in m)
                out.append(f"{c}{'*' + mon if mon else ''}")
            return " + ".join(out)

        return f"({ps(self.num)}) / ({ps(self.den)})"


_UF_REGISTRY: list = []  # (function name, inner Rational): atoms are equal iff inner normal forms are equal


def uf_atom(fn: str, inner: "Rational") -> dict:
    for k, (f, r) in enumerate(_UF_REGISTRY):
        if f == fn and r.equals(inner):
            return _atom(f"{fn}#{k}")
    _UF_REGISTRY.append((fn, inner))
    return _atom(f"{fn}#{len(_UF_REGISTRY) - 1}")


def uf_inner(atom: str):
    fn, _, k = atom.partition("#")
    return _UF_REGISTRY[int(k)][1] if k.isdigit() else None


TRANSPARENT_CALLS = {"tile", "reshape", "asarray", "atleast_1d", "atleast_2d", "float64", "astype", "copy", "array"}
UNINTERPRETED = {"sqrt", "nansum", "sum", "diff", "log", "exp", "abs", "mean", "sin", "cos", "arcsin", "arccos", "deg2rad", "rad2deg", "diag", "log1p", "expm1"}


def poly(e: ast.AST, resolve=None, rename=None, _depth: int = 0) -> Rational:
    """Normal form of an arithmetic expression.  `rename(text)` maps atom texts (used for the
    twin-path comparison).  Broadcasting helpers are transparent."""
    rename = rename or (lambda t: t)
    n = _num(e)
    if n is not None:
        return Rational(_const(n))
    if isinstance(e, ast.Name) and resolve is not None and _depth < 8:
        d = resolve(e.id)
        if d is not None:
            return poly(d, resolve, rename, _depth + 1)
    if isinstance(e, ast.BinOp):
        if isinstance(e.op, ast.Pow):
            k = _num(e.right)
            if k is not None and k.denominator == 1 and 0 <= k <= 6:
                base = poly(e.left, resolve, rename, _depth)
                out = Rational(_const(1))
                for _ in range(int(k)):
                    out = out * base
                return out
        else:
            l, r = poly(e.left, resolve, rename, _depth), poly(e.right, resolve, rename, _depth)
            if isinstance(e.op, ast.Add):
                return l + r
            if isinstance(e.op, ast.Sub):
                return l - r
            if isinstance(e.op, ast.Mult):
                return l * r
            if isinstance(e.op, ast.Div):
                return l / r
    if isinstance(e, ast.UnaryOp) and isinstance(e.op, ast.USub):
        return -poly(e.operand, resolve, rename, _depth)
    if isinstance(e, ast.Call):
        fn = (dotted(e.func) or "").split(".")[-1]
        if isinstance(e.func, ast.Attribute) and e.func.attr in TRANSPARENT_CALLS and not (dotted(e.func.value) or "").split(".")[0] in ("np", "numpy"):
            return poly(e.func.value, resolve, rename, _depth)  # x.reshape(...), x.astype(...)
        if fn in TRANSPARENT_CALLS and e.args:
            return poly(e.args[0], resolve, rename, _depth)
        if fn in UNINTERPRETED and e.args:
            inner = poly(e.args[0], resolve, rename, _depth)
            return Rational(uf_atom(fn, inner))
    if isinstance(e, ast.Subscript) and isinstance(e.slice, ast.Tuple) and all(
        isinstance(x, ast.Slice) or (isinstance(x, ast.Attribute) and x.attr == "newaxis") or (isinstance(x, ast.Constant) and x.value is None) for x in e.slice.elts
    ):
        return poly(e.value, resolve, rename, _depth)  # x[:, np.newaxis] is broadcasting only
    return Rational(_atom(rename(unparse(e))))


# ----------------------------------------------------------------------------- straight-line symbolic evaluation


def sym_exec(stmts, *, rename=None, env=None, conds=None, skip_tests=("on_root", "logger")):
    """Symbolically evaluate a loop-free statement list; yields (conds, env, return_expr) per path.
    env maps names to `Rational`; If statements fork unless their test mentions a skip word.
    conds is a list of (test source, polarity)."""
    env = dict(env or {})
    conds = list(conds or [])
    rename = rename or (lambda t: t)

    def resolve_env(e):
        return None

    def P(e):
        return _poly_env(e, env, rename)

    for k, st in enumerate(stmts):
        if isinstance(st, ast.Expr):
            continue
        if isinstance(st, ast.Assign) and len(st.targets) == 1 and isinstance(st.targets[0], ast.Name) and isinstance(st.value, ast.IfExp):
            for arm, pol in ((st.value.body, True), (st.value.orelse, False)):
                e2 = dict(env)
                e2[st.targets[0].id] = _poly_env(arm, e2, rename)
                yield from sym_exec(stmts[k + 1 :], rename=rename, env=e2, conds=conds + [(unparse(st.value.test), pol)], skip_tests=skip_tests)
            return
        if isinstance(st, ast.Assign) and len(st.targets) == 1 and isinstance(st.targets[0], ast.Name):
            env[st.targets[0].id] = P(st.value)
            continue
        if isinstance(st, ast.AugAssign) and isinstance(st.target, ast.Name):
            cur = env.get(st.target.id, Rational(_atom(rename(st.target.id))))
            v = P(st.value)
            if isinstance(st.op, ast.Add):
                env[st.target.id] = cur + v
            elif isinstance(st.op, ast.Sub):
                env[st.target.id] = cur - v
            elif isinstance(st.op, ast.Mult):
                env[st.target.id] = cur * v
            elif isinstance(st.op, ast.Div):
                env[st.target.id] = cur / v
            else:
                raise NotAffine("augmented assignment")
            continue
        if isinstance(st, ast.If):
            t = unparse(st.test)
            if any(w in t for w in skip_tests):
                # logging-only branch: must not bind names that are used later
                continue
            yield from sym_exec(st.body + stmts[k + 1 :], rename=rename, env=env, conds=conds + [(t, True)], skip_tests=skip_tests)
            yield from sym_exec(st.orelse + stmts[k + 1 :], rename=rename, env=env, conds=conds + [(t, False)], skip_tests=skip_tests)
            return
        if isinstance(st, ast.Return):
            yield conds, env, st.value
            return
        if isinstance(st, ast.Raise):
            return
        if isinstance(st, (ast.Assign, ast.AnnAssign)):
            continue  # tuple targets / attribute stores: not tracked
        if isinstance(st, (ast.For, ast.While, ast.With, ast.Try)):
            raise NotAffine(f"control flow {type(st).__name__}")
    yield conds, env, None


def _poly_env(e, env, rename) -> Rational:
    def resolve(name):
        return None

    def rec(x) -> Rational:
        if isinstance(x, ast.Name) and x.id in env:
            return env[x.id]
        n = _num(x)
        if n is not None:
            return Rational(_const(n))
        if isinstance(x, ast.BinOp) and not isinstance(x.op, ast.Pow):
            l, r = rec(x.left), rec(x.right)
            if isinstance(x.op, ast.Add):
                return l + r
            if isinstance(x.op, ast.Sub):
                return l - r
            if isinstance(x.op, ast.Mult):
                return l * r
            if isinstance(x.op, ast.Div):
                return l / r
        if isinstance(x, ast.BinOp) and isinstance(x.op, ast.Pow):
            k = _num(x.right)
            if k is not None and k.denominator == 1 and 0 <= k <= 6:
                base = rec(x.left)
                out = Rational(_const(1))
                for _ in range(int(k)):
                    out = out * base
                return out
        if isinstance(x, ast.UnaryOp) and isinstance(x.op, ast.USub):
            return -rec(x.operand)
        if isinstance(x, ast.Call):
            fn = (dotted(x.func) or "").split(".")[-1]
            if isinstance(x.func, ast.Attribute) and x.func.attr in TRANSPARENT_CALLS and (dotted(x.func.value) or "").split(".")[0] not in ("np", "numpy"):
                return rec(x.func.value)
            if fn in TRANSPARENT_CALLS and x.args:
                return rec(x.args[0])
            if fn in UNINTERPRETED and x.args:
                return Rational(uf_atom(fn, rec(x.args[0])))
            if fn == "einsum" and len(x.args) >= 2 and isinstance(x.args[0], ast.Constant):
                spec = x.args[0].value.replace(" ", "")
                inner = rec(x.args[1])
                for a in x.args[2:]:
                    inner = inner * Rational(_atom("⊗")) * rec(a)
                return Rational(uf_atom(f"einsum<{spec}>", inner))
        if isinstance(x, ast.Subscript) and isinstance(x.slice, ast.Tuple) and all(
            isinstance(s, ast.Slice) or (isinstance(s, ast.Attribute) and s.attr == "newaxis") or (isinstance(s, ast.Constant) and s.value is None) for s in x.slice.elts
        ):
            return rec(x.value)
        return Rational(_atom(rename(unparse(x))))

    return rec(e)


def atoms_of(r: "Rational", _depth: int = 0, opaque=("nansum", "sum", "mean")) -> set:
    """all atom texts of a normal form, looking through element-wise uninterpreted functions
    (sqrt, …) but not through reductions (a scalar norm may legitimately come from the value)"""
    out = set()
    for p in (r.num, r.den):
        for mono in p:
            for a, _ in mono:
                inner = uf_inner(a) if "#" in a and a.split("#")[0] not in opaque else None
                if inner is not None and _depth < 6:
                    out |= atoms_of(inner, _depth + 1, opaque)
                else:
                    out.add(a)
    return out
