"""Behaviour-preserving program transformations, applied mechanically to a scratch copy of the tree.

Every transformation below preserves the meaning of the program *by construction* (it is a law of the language, not a
judgement about this code base), so every claimed check has to stay silent on the transformed copy: an alarm there is
a false alarm of the machinery.  The self-validation generates these variants from the *current* /repo on every run
(nothing is stored, nothing goes stale) — see `selftest.py` (kind "equiv").

    reformat      the files are re-emitted by ast.unparse (all comments gone, every line number moved)
    invert-if     `if c: A else: B`             ->  `if not c: B else: A`
    ifexp-stmt    `x = a if c else b`           ->  `if c: x = a else: x = b`   (also `return a if c else b`)
    rename-locals every function-local variable `v` (not a parameter, not shared with a nested scope) -> `v_rn`
    flip-compare  `a < b` -> `b > a`, `a == b` -> `b == a` … when both operands are plain names / attributes / literals
    de-morgan     `not (a and b)` -> `not a or not b`,  `not (a or b)` -> `not a and not b`
    return-temp   `return e`                    ->  `_rv = e; return _rv`
    dict-literal  `dict(k=v, …)` -> `{"k": v, …}`, `dict()` -> `{}`, `list()` -> `[]`, `tuple()` -> `()`
    sort-keywords keyword arguments of a call in alphabetical order (all values plain, no `**`)
    split-and     `if a and b: X` (no else)     ->  `if a: if b: X`
    else-pass     `if c: X` (no else)           ->  `if c: X else: pass`
    split-chain   `a < b <= c` (b plain)        ->  `a < b and b <= c`
    while-true    `while c: B` (no else)        ->  `while True: if not c: break; B`
    listcomp-loop `x = [e for t in it if c]`    ->  `x = []; for t in it: if c: x.append(e)`   (t unused elsewhere)
    unpack-split  `a, b = x, y`                 ->  `a = x; b = y`           (no target read by a value)
    in-to-or      `x in (A, B)` (x, A, B plain) ->  `x == A or x == B`;  `not in` -> `!= … and …`
    lambda-to-def `f = lambda a: e`             ->  `def f(a): return e`
    with-split    `with a as x, b as y: B`      ->  `with a as x: with b as y: B`
    guard-else    `if c: …return/raise` + REST  ->  `if c: … else: REST`
    else-unguard  `if c: …return/raise else: R` ->  `if c: …` + R
    return-none   bare `return`                 ->  `return None`
    args-to-keywords  positional arguments of a call to a function defined at the top of the same module are passed by
                  keyword (names from its signature; not for *args / positional-only)

The transformations only touch function bodies of modules under src/yaw; module-level code and class bodies are left
alone except by `reformat`."""

from __future__ import annotations

import ast
import copy
import os

TRANSFORMS = (
    "reformat",
    "invert-if",
    "ifexp-stmt",
    "rename-locals",
    "flip-compare",
    "de-morgan",
    "return-temp",
    "dict-literal",
    "sort-keywords",
    "split-and",
    "else-pass",
    "split-chain",
    "while-true",
    "listcomp-loop",
    "unpack-split",
    "in-to-or",
    "lambda-to-def",
    "with-split",
    "guard-else",
    "else-unguard",
    "return-none",
    "args-to-keywords",
    # compositions: the small edits of one change come together
    "rename-locals+guard-else+args-to-keywords+flip-compare",
    "return-temp+invert-if+ifexp-stmt+listcomp-loop+while-true",
    "else-unguard+split-and+in-to-or+dict-literal+sort-keywords+rename-locals",
)


def _plain(e: ast.AST) -> bool:
    """an expression without effects whose evaluation order does not matter: names, attribute chains, literals,
    subscripts and tuples of those"""
    if isinstance(e, (ast.Name, ast.Constant)):
        return True
    if isinstance(e, ast.Attribute):
        return _plain(e.value)
    if isinstance(e, ast.Subscript):
        return _plain(e.value) and _plain(e.slice)
    if isinstance(e, ast.Tuple):
        return all(_plain(x) for x in e.elts)
    if isinstance(e, ast.UnaryOp) and isinstance(e.op, (ast.USub, ast.UAdd)):
        return _plain(e.operand)
    return False


def _negate(t: ast.AST) -> ast.AST:
    if isinstance(t, ast.UnaryOp) and isinstance(t.op, ast.Not):
        return t.operand
    return ast.UnaryOp(op=ast.Not(), operand=t)


_FLIP = {ast.Lt: ast.Gt, ast.Gt: ast.Lt, ast.LtE: ast.GtE, ast.GtE: ast.LtE, ast.Eq: ast.Eq, ast.NotEq: ast.NotEq}


class _InFunctions(ast.NodeTransformer):
    """applies `self.stmt` / `self.expr` hooks inside function bodies only"""

    def __init__(self) -> None:
        self.depth = 0
        self.count = 0

    def visit_FunctionDef(self, node):
        self.depth += 1
        node = self.generic_visit(node)
        self.depth -= 1
        return node

    visit_AsyncFunctionDef = visit_FunctionDef


class InvertIf(_InFunctions):
    def visit_If(self, node):
        node = self.generic_visit(node)
        if self.depth and node.orelse:
            self.count += 1
            return ast.copy_location(ast.If(test=_negate(node.test), body=node.orelse, orelse=node.body), node)
        return node


class IfExpStmt(_InFunctions):
    def visit_Assign(self, node):
        if self.depth and isinstance(node.value, ast.IfExp) and len(node.targets) == 1 and isinstance(node.targets[0], ast.Name):
            v = node.value
            self.count += 1
            mk = lambda val: ast.copy_location(ast.Assign(targets=[copy.deepcopy(node.targets[0])], value=val), node)  # noqa: E731
            return ast.copy_location(ast.If(test=v.test, body=[mk(v.body)], orelse=[mk(v.orelse)]), node)
        return node

    def visit_Return(self, node):
        if self.depth and isinstance(node.value, ast.IfExp):
            v = node.value
            self.count += 1
            return ast.copy_location(ast.If(test=v.test, body=[ast.copy_location(ast.Return(value=v.body), node)], orelse=[ast.copy_location(ast.Return(value=v.orelse), node)]), node)
        return node


class FlipCompare(_InFunctions):
    def visit_Compare(self, node):
        node = self.generic_visit(node)
        if self.depth and len(node.ops) == 1 and type(node.ops[0]) in _FLIP and _plain(node.left) and _plain(node.comparators[0]):
            self.count += 1
            return ast.copy_location(ast.Compare(left=node.comparators[0], ops=[_FLIP[type(node.ops[0])]()], comparators=[node.left]), node)
        return node


class DeMorgan(_InFunctions):
    def visit_UnaryOp(self, node):
        node = self.generic_visit(node)
        if self.depth and isinstance(node.op, ast.Not) and isinstance(node.operand, ast.BoolOp):
            b = node.operand
            self.count += 1
            return ast.copy_location(ast.BoolOp(op=ast.Or() if isinstance(b.op, ast.And) else ast.And(), values=[_negate(v) for v in b.values]), node)
        return node


class ReturnTemp(_InFunctions):
    def _block(self, stmts):
        out = []
        for s in stmts:
            if isinstance(s, ast.Return) and s.value is not None and not isinstance(s.value, (ast.Name, ast.Constant)):
                self.count += 1
                out.append(ast.copy_location(ast.Assign(targets=[ast.Name(id="_rv", ctx=ast.Store())], value=s.value), s))
                out.append(ast.copy_location(ast.Return(value=ast.Name(id="_rv", ctx=ast.Load())), s))
            else:
                out.append(s)
        return out

    def generic_visit(self, node):
        node = super().generic_visit(node)
        if self.depth:
            for f in ("body", "orelse", "finalbody"):
                if isinstance(getattr(node, f, None), list) and getattr(node, f) and isinstance(getattr(node, f)[0], ast.stmt):
                    setattr(node, f, self._block(getattr(node, f)))
        return node

    def visit_FunctionDef(self, node):
        if any(isinstance(x, ast.Name) and x.id == "_rv" for x in ast.walk(node)):
            return node
        self.depth += 1
        node = self.generic_visit(node)
        self.depth -= 1
        return node

    visit_AsyncFunctionDef = visit_FunctionDef


class DictLiteral(_InFunctions):
    def visit_Call(self, node):
        node = self.generic_visit(node)
        if not self.depth or not isinstance(node.func, ast.Name):
            return node
        if node.func.id == "dict" and not node.args and all(k.arg is not None for k in node.keywords):
            self.count += 1
            return ast.copy_location(ast.Dict(keys=[ast.Constant(value=k.arg) for k in node.keywords], values=[k.value for k in node.keywords]), node)
        if node.func.id in ("list", "tuple") and not node.args and not node.keywords:
            self.count += 1
            return ast.copy_location(ast.List(elts=[], ctx=ast.Load()) if node.func.id == "list" else ast.Tuple(elts=[], ctx=ast.Load()), node)
        return node


class SortKeywords(_InFunctions):
    def visit_Call(self, node):
        node = self.generic_visit(node)
        if self.depth and len(node.keywords) > 1 and all(k.arg is not None and _plain(k.value) for k in node.keywords) and all(_plain(a) for a in node.args):
            new = sorted(node.keywords, key=lambda k: k.arg)
            if [k.arg for k in new] != [k.arg for k in node.keywords]:
                self.count += 1
                node.keywords = new
        return node


class SplitAnd(_InFunctions):
    def visit_If(self, node):
        node = self.generic_visit(node)
        if self.depth and not node.orelse and isinstance(node.test, ast.BoolOp) and isinstance(node.test.op, ast.And) and len(node.test.values) == 2:
            self.count += 1
            inner = ast.copy_location(ast.If(test=node.test.values[1], body=node.body, orelse=[]), node)
            return ast.copy_location(ast.If(test=node.test.values[0], body=[inner], orelse=[]), node)
        return node


class ElsePass(_InFunctions):
    def visit_If(self, node):
        node = self.generic_visit(node)
        if self.depth and not node.orelse:
            self.count += 1
            node.orelse = [ast.copy_location(ast.Pass(), node)]
        return node


class SplitChain(_InFunctions):
    def visit_Compare(self, node):
        node = self.generic_visit(node)
        if self.depth and len(node.ops) == 2 and _plain(node.comparators[0]):
            self.count += 1
            a = ast.Compare(left=node.left, ops=[node.ops[0]], comparators=[node.comparators[0]])
            b = ast.Compare(left=copy.deepcopy(node.comparators[0]), ops=[node.ops[1]], comparators=[node.comparators[1]])
            return ast.copy_location(ast.BoolOp(op=ast.And(), values=[a, b]), node)
        return node


def _always_leaves(stmts) -> bool:
    if not stmts:
        return False
    last = stmts[-1]
    if isinstance(last, (ast.Return, ast.Raise, ast.Continue, ast.Break)):
        return True
    if isinstance(last, ast.If) and last.orelse:
        return _always_leaves(last.body) and _always_leaves(last.orelse)
    return False


class _Blocks(_InFunctions):
    """rewrites statement lists inside functions through self.block(stmts)"""

    def block(self, stmts):  # pragma: no cover - overridden
        return stmts

    def generic_visit(self, node):
        node = super().generic_visit(node)
        if self.depth:
            for f in ("body", "orelse", "finalbody"):
                v = getattr(node, f, None)
                if isinstance(v, list) and v and isinstance(v[0], ast.stmt) and not (isinstance(node, (ast.FunctionDef, ast.AsyncFunctionDef)) and self.depth == 0):
                    setattr(node, f, self.block(v))
        return node


class WhileTrue(_InFunctions):
    def visit_While(self, node):
        node = self.generic_visit(node)
        if self.depth and not node.orelse and not (isinstance(node.test, ast.Constant) and node.test.value is True):
            self.count += 1
            brk = ast.copy_location(ast.If(test=_negate(node.test), body=[ast.copy_location(ast.Break(), node)], orelse=[]), node)
            return ast.copy_location(ast.While(test=ast.Constant(value=True), body=[brk, *node.body], orelse=[]), node)
        return node


class ListCompLoop(_Blocks):
    def visit_FunctionDef(self, node):
        self._names = {}
        for x in ast.walk(node):
            if isinstance(x, ast.Name):
                self._names[x.id] = self._names.get(x.id, 0) + 1
        return super().visit_FunctionDef(node)

    visit_AsyncFunctionDef = visit_FunctionDef

    def block(self, stmts):
        out = []
        for s in stmts:
            if isinstance(s, ast.Assign) and len(s.targets) == 1 and isinstance(s.targets[0], ast.Name) and isinstance(s.value, ast.ListComp) and len(s.value.generators) == 1 and not s.value.generators[0].is_async:
                g = s.value.generators[0]
                tnames = [x.id for x in ast.walk(g.target) if isinstance(x, ast.Name)]
                inside = {}
                for x in ast.walk(s.value):
                    if isinstance(x, ast.Name):
                        inside[x.id] = inside.get(x.id, 0) + 1
                x_name = s.targets[0].id
                # the loop variables must be private to the comprehension, the result name must not occur in it,
                # and no nested scope may capture the loop variable late
                if all(self._names.get(t) == inside.get(t) for t in tnames) and x_name not in inside and not any(isinstance(y, (ast.Lambda, ast.GeneratorExp, ast.ListComp, ast.SetComp, ast.DictComp)) for y in ast.walk(s.value) if y is not s.value):
                    self.count += 1
                    body = [ast.copy_location(ast.Expr(value=ast.Call(func=ast.Attribute(value=ast.Name(id=x_name, ctx=ast.Load()), attr="append", ctx=ast.Load()), args=[s.value.elt], keywords=[])), s)]
                    for c in reversed(g.ifs):
                        body = [ast.copy_location(ast.If(test=c, body=body, orelse=[]), s)]
                    out.append(ast.copy_location(ast.Assign(targets=[ast.Name(id=x_name, ctx=ast.Store())], value=ast.List(elts=[], ctx=ast.Load())), s))
                    out.append(ast.copy_location(ast.For(target=g.target, iter=g.iter, body=body, orelse=[]), s))
                    continue
            out.append(s)
        return out


class UnpackSplit(_Blocks):
    def block(self, stmts):
        out = []
        for s in stmts:
            if isinstance(s, ast.Assign) and len(s.targets) == 1 and isinstance(s.targets[0], ast.Tuple) and isinstance(s.value, ast.Tuple) and len(s.targets[0].elts) == len(s.value.elts) and all(isinstance(t, ast.Name) for t in s.targets[0].elts) and not any(isinstance(v, ast.Starred) for v in s.value.elts):
                tn = {t.id for t in s.targets[0].elts}
                if not any(isinstance(x, ast.Name) and x.id in tn for v in s.value.elts for x in ast.walk(v)) and all(_plain(v) or i == 0 for i, v in enumerate(s.value.elts)):
                    self.count += 1
                    for t, v in zip(s.targets[0].elts, s.value.elts):
                        out.append(ast.copy_location(ast.Assign(targets=[t], value=v), s))
                    continue
            out.append(s)
        return out


class InToOr(_InFunctions):
    def visit_Compare(self, node):
        node = self.generic_visit(node)
        if self.depth and len(node.ops) == 1 and isinstance(node.ops[0], (ast.In, ast.NotIn)) and _plain(node.left) and isinstance(node.comparators[0], (ast.Tuple, ast.List)) and 1 <= len(node.comparators[0].elts) <= 4:
            elts = node.comparators[0].elts
            if all(isinstance(e, ast.Constant) and isinstance(e.value, str) or (isinstance(e, ast.Attribute) and _plain(e)) for e in elts):
                self.count += 1
                pos = isinstance(node.ops[0], ast.In)
                parts = [ast.Compare(left=copy.deepcopy(node.left), ops=[ast.Eq() if pos else ast.NotEq()], comparators=[e]) for e in elts]
                return ast.copy_location(parts[0] if len(parts) == 1 else ast.BoolOp(op=ast.Or() if pos else ast.And(), values=parts), node)
        return node


class LambdaToDef(_Blocks):
    def block(self, stmts):
        out = []
        for s in stmts:
            if isinstance(s, ast.Assign) and len(s.targets) == 1 and isinstance(s.targets[0], ast.Name) and isinstance(s.value, ast.Lambda):
                self.count += 1
                out.append(ast.copy_location(ast.FunctionDef(name=s.targets[0].id, args=s.value.args, body=[ast.copy_location(ast.Return(value=s.value.body), s)], decorator_list=[], returns=None, type_comment=None, type_params=[]), s))
                continue
            out.append(s)
        return out


class WithSplit(_InFunctions):
    def visit_With(self, node):
        node = self.generic_visit(node)
        if self.depth and len(node.items) > 1:
            self.count += 1
            inner = node.body
            for it in reversed(node.items):
                inner = [ast.copy_location(ast.With(items=[it], body=inner, type_comment=None), node)]
            return inner[0]
        return node


class GuardElse(_Blocks):
    def block(self, stmts):
        for i, s in enumerate(stmts[:-1]):
            if isinstance(s, ast.If) and not s.orelse and _always_leaves(s.body):
                self.count += 1
                new = ast.copy_location(ast.If(test=s.test, body=s.body, orelse=self.block(stmts[i + 1 :])), s)
                return [*stmts[:i], new]
        return stmts


class ElseUnguard(_Blocks):
    def block(self, stmts):
        out = []
        for s in stmts:
            if isinstance(s, ast.If) and s.orelse and _always_leaves(s.body) and not (len(s.orelse) == 1 and isinstance(s.orelse[0], ast.If) and False):
                self.count += 1
                out.append(ast.copy_location(ast.If(test=s.test, body=s.body, orelse=[]), s))
                out.extend(s.orelse)
                continue
            out.append(s)
        return out


class ReturnNone(_InFunctions):
    def visit_Return(self, node):
        if self.depth and node.value is None:
            self.count += 1
            node.value = ast.Constant(value=None)
        return node


class ArgsToKeywords(ast.NodeTransformer):
    def __init__(self) -> None:
        self.count = 0
        self.sigs: dict = {}

    def visit_Module(self, node):
        defs: dict = {}
        for st in node.body:
            if isinstance(st, ast.FunctionDef):
                defs.setdefault(st.name, []).append(st)
        # names bound exactly once at module level, as a plain function without decorators
        rebound = {t.id for st in ast.walk(node) for t in (st.targets if isinstance(st, ast.Assign) else []) if isinstance(t, ast.Name)}
        for name, ds in defs.items():
            if len(ds) == 1 and not ds[0].decorator_list and name not in rebound and not ds[0].args.posonlyargs and not ds[0].args.vararg:
                self.sigs[name] = [a.arg for a in ds[0].args.args]
        return self.generic_visit(node)

    def visit_Call(self, node):
        node = self.generic_visit(node)
        if isinstance(node.func, ast.Name) and node.func.id in self.sigs and node.args and not any(isinstance(a, ast.Starred) for a in node.args) and not any(k.arg is None for k in node.keywords):
            params = self.sigs[node.func.id]
            if len(node.args) <= len(params) and not any(k.arg in params[: len(node.args)] for k in node.keywords):
                self.count += 1
                node.keywords = [ast.keyword(arg=p, value=a) for p, a in zip(params, node.args)] + node.keywords
                node.args = []
        return node


class RenameLocals(ast.NodeTransformer):
    """v -> v_rn for the names a function binds itself, when no nested scope (function, lambda, comprehension, class)
    mentions the name, it is not a parameter, not declared global / nonlocal"""

    def __init__(self) -> None:
        self.count = 0

    def _rename(self, fn) -> None:
        a = fn.args
        params = {p.arg for p in [*a.posonlyargs, *a.args, *a.kwonlyargs]} | ({a.vararg.arg} if a.vararg else set()) | ({a.kwarg.arg} if a.kwarg else set())
        nested_names: set = set()
        declared: set = set()
        bound: set = set()
        special: set = set()

        def scan(node, nested: bool):
            for ch in ast.iter_child_nodes(node):
                inner = nested or isinstance(ch, (ast.FunctionDef, ast.AsyncFunctionDef, ast.Lambda, ast.ClassDef, ast.ListComp, ast.SetComp, ast.DictComp, ast.GeneratorExp))
                if isinstance(ch, (ast.Global, ast.Nonlocal)):
                    declared.update(ch.names)
                if isinstance(ch, ast.Name):
                    if inner:
                        nested_names.add(ch.id)
                    elif isinstance(ch.ctx, (ast.Store, ast.Del)):
                        bound.add(ch.id)
                if isinstance(ch, (ast.FunctionDef, ast.AsyncFunctionDef, ast.ClassDef)) and not nested:
                    special.add(ch.name)
                if isinstance(ch, ast.ExceptHandler) and ch.name:
                    special.add(ch.name)
                if isinstance(ch, (ast.Import, ast.ImportFrom)):
                    special.update((al.asname or al.name).split(".")[0] for al in ch.names)
                if isinstance(ch, ast.arg) and inner:
                    nested_names.add(ch.arg)
                if isinstance(ch, ast.MatchAs) and ch.name:
                    special.add(ch.name)
                if isinstance(ch, ast.MatchStar) and ch.name:
                    special.add(ch.name)
                if isinstance(ch, ast.MatchMapping) and ch.rest:
                    special.add(ch.rest)
                scan(ch, inner)

        for st in fn.body:
            scan(ast.Module(body=[st], type_ignores=[]), False)
        names = {n for n in bound - params - nested_names - declared - special if not n.startswith("__")}
        if not names:
            return
        for node in ast.walk(fn):
            if isinstance(node, ast.Name) and node.id in names:
                node.id = node.id + "_rn"
                self.count += 1

    def visit_FunctionDef(self, node):
        self.generic_visit(node)
        self._rename(node)
        return node

    visit_AsyncFunctionDef = visit_FunctionDef


_CLASSES = {
    "invert-if": InvertIf,
    "ifexp-stmt": IfExpStmt,
    "rename-locals": RenameLocals,
    "flip-compare": FlipCompare,
    "de-morgan": DeMorgan,
    "return-temp": ReturnTemp,
    "dict-literal": DictLiteral,
    "sort-keywords": SortKeywords,
    "split-and": SplitAnd,
    "else-pass": ElsePass,
    "split-chain": SplitChain,
    "while-true": WhileTrue,
    "listcomp-loop": ListCompLoop,
    "unpack-split": UnpackSplit,
    "in-to-or": InToOr,
    "lambda-to-def": LambdaToDef,
    "with-split": WithSplit,
    "guard-else": GuardElse,
    "else-unguard": ElseUnguard,
    "return-none": ReturnNone,
    "args-to-keywords": ArgsToKeywords,
}


def transform_source(src: str, name: str) -> tuple[str, int]:
    tree = ast.parse(src)
    n = 0
    for part in name.split("+"):
        if part == "reformat":
            continue
        t = _CLASSES[part]()
        tree = t.visit(tree)
        n += t.count
        ast.fix_missing_locations(tree)
        tree = ast.parse(ast.unparse(tree))  # (re-parse: the next transformation sees a consistent tree)
    out = ast.unparse(tree) + "\n"
    compile(out, "<equiv>", "exec")
    return out, n


def apply(dest_src: str, name: str, only_module: str | None = None) -> int:
    """rewrite every module under <dest_src>/yaw in place; returns the number of rewritten sites"""
    total = 0
    for dp, _dn, fns in os.walk(os.path.join(dest_src, "yaw")):
        for fn in fns:
            if not fn.endswith(".py") or fn == "_version.py":
                continue
            p = os.path.join(dp, fn)
            rel = os.path.relpath(p, dest_src)
            if only_module and rel != only_module:
                continue
            with open(p, encoding="utf-8") as f:
                src = f.read()
            out, n = transform_source(src, name)
            total += n
            if n or name == "reformat":
                with open(p, "w", encoding="utf-8") as f:
                    f.write(out)
    return total
