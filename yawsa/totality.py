"""Generic totality rules: attribute existence and keyword/arity existence on resolved
receivers and callees.  Used by C15.R1 / C17.R1 (and package-wide in the thorough tier)."""

from __future__ import annotations

import ast

from .model import ClassInfo, External, FuncInfo, Program, dotted, unparse, walk_no_nested


def _narrowed_names(fi: FuncInfo) -> dict[str, ClassInfo]:
    """names narrowed to the class of self by `isinstance(x, type(self))` guards that return/raise otherwise"""
    out = {}
    if fi.cls is None:
        return out
    for x in walk_no_nested(fi.node):
        if isinstance(x, ast.Call) and isinstance(x.func, ast.Name) and x.func.id == "isinstance" and len(x.args) == 2:
            a, t = x.args
            if isinstance(a, ast.Name) and isinstance(t, ast.Call) and isinstance(t.func, ast.Name) and t.func.id == "type":
                out[a.id] = fi.cls
            elif isinstance(a, ast.Name) and isinstance(t, ast.Name) and t.id == fi.cls.name:
                out[a.id] = fi.cls
    return out


def concrete_subclasses(prog: Program, ci: ClassInfo) -> list[ClassInfo]:
    subs = [c for c in [ci] + prog.subclasses(ci)]
    out = []
    for c in subs:
        abstract = any(m.is_abstract for m in _all_methods(prog, c).values())
        if not abstract:
            out.append(c)
    return out


def _all_methods(prog: Program, ci: ClassInfo) -> dict:
    out = {}
    for c in reversed(prog.mro(ci)):
        if isinstance(c, ClassInfo):
            out.update(c.methods)
    return out


_RUNS_ON: dict = {}


def runs_on(prog: Program, fi: FuncInfo, sub: ClassInfo) -> bool:
    """can the method `fi` of a base class run with an instance of the concrete class `sub` as self?  Not when `sub`
    overrides it; and a private method (single underscore) only when a public / special method that `sub` resolves
    reaches it through calls on self — or when something outside the hierarchy mentions the name at all."""
    key = (prog.uid, fi.key, sub.name, id(sub))
    if key in _RUNS_ON:
        return _RUNS_ON[key]
    out = True
    name = fi.name
    if prog.find_method(sub, name) is not fi:
        out = False
    elif name.startswith("_") and not (name.startswith("__") and name.endswith("__")):
        mro = [k for k in prog.mro(sub) if isinstance(k, ClassInfo)]
        names = {n for k in mro for n in k.methods}
        resolved = {n: prog.find_method(sub, n) for n in names}
        hier = {id(m.node) for k in mro for m in k.methods.values()}
        def own(g):  # the name under which a method of another class refers to its own instance
            return (g.param_names() or [None])[0] if g.cls is not None and not g.is_staticmethod else None

        outside = any(
            isinstance(x, ast.Attribute) and x.attr == name and not (isinstance(x.value, ast.Name) and x.value.id == own(g))
            for g in prog.funcs
            if id(g.node) not in hier and (g.parent is None or id(g.parent.node) not in hier)
            for x in ast.walk(g.node)
        )
        if not outside:
            seen: set = set()
            todo = [m for n, m in resolved.items() if m is not None and (not n.startswith("_") or (n.startswith("__") and n.endswith("__")))]
            out = False
            while todo:
                m = todo.pop()
                if id(m) in seen:
                    continue
                seen.add(id(m))
                if m is fi:
                    out = True
                    break
                first = (m.param_names() or [None])[0]
                for x in ast.walk(m.node):
                    if isinstance(x, ast.Attribute) and isinstance(x.value, ast.Name) and x.value.id == first and resolved.get(x.attr) is not None:
                        todo.append(resolved[x.attr])
                    elif isinstance(x, ast.Call) and isinstance(x.func, ast.Name) and x.func.id == "getattr" and len(x.args) >= 2 and isinstance(x.args[0], ast.Name) and x.args[0].id == first:
                        # getattr(self, <name>): any method may be meant unless the name is a literal
                        if isinstance(x.args[1], ast.Constant):
                            if resolved.get(x.args[1].value) is not None:
                                todo.append(resolved[x.args[1].value])
                        else:
                            lits = _iterated_literals(prog, mro, m, first, x.args[1])
                            if lits is not None:
                                todo.extend(resolved[n_] for n_ in lits if resolved.get(n_) is not None)
                            else:
                                todo.extend(v for v in resolved.values() if v is not None)
    _RUNS_ON[key] = out
    return out


def _iterated_literals(prog: Program, mro: list, m: FuncInfo, first: str, name: ast.AST):
    """the strings a loop variable takes when it runs over a literal tuple / a class-level tuple of strings read
    through self (`for name in self._limit_names`); None when that cannot be told"""
    if not isinstance(name, ast.Name):
        return None
    its = [g.iter for x in ast.walk(m.node) if isinstance(x, (ast.GeneratorExp, ast.ListComp, ast.SetComp, ast.DictComp)) for g in x.generators if isinstance(g.target, ast.Name) and g.target.id == name.id]
    its += [x.iter for x in ast.walk(m.node) if isinstance(x, ast.For) and isinstance(x.target, ast.Name) and x.target.id == name.id]
    stores = [x for x in ast.walk(m.node) if isinstance(x, ast.Name) and x.id == name.id and isinstance(x.ctx, ast.Store)]
    if len(its) != 1 or len(stores) != 1:
        return None
    it = its[0]
    if isinstance(it, ast.Attribute) and isinstance(it.value, ast.Name) and it.value.id == first:
        val = None
        for k in mro:
            for st in k.node.body:
                if isinstance(st, ast.Assign) and len(st.targets) == 1 and isinstance(st.targets[0], ast.Name) and st.targets[0].id == it.attr:
                    val = st.value
                elif isinstance(st, ast.AnnAssign) and isinstance(st.target, ast.Name) and st.target.id == it.attr and st.value is not None:
                    val = st.value
            if val is not None:
                break
        it = val
    if isinstance(it, (ast.Tuple, ast.List)) and it.elts and all(isinstance(e, ast.Constant) and isinstance(e.value, str) for e in it.elts):
        return [e.value for e in it.elts]
    return None


def missing_attributes(prog: Program, fi: FuncInfo):
    """[(node, receiver text, attr, classes lacking it)] for attribute loads on receivers typed as
    in-repo classes where the attribute exists in none of the possible classes (for `self`: is missing
    in some concrete class the method can run on)."""
    hits = []
    if fi.cls is None:
        return hits
    env = prog.func_env(fi)
    params = fi.param_names()
    selfname = params[0] if params and not fi.is_staticmethod and not fi.is_classmethod else None
    narrowed = _narrowed_names(fi)
    seen = set()
    for x in walk_no_nested(fi.node):
        if not (isinstance(x, ast.Attribute) and isinstance(x.ctx, ast.Load)):
            continue
        recv = x.value
        classes: list[ClassInfo] = []
        mode = None
        if isinstance(recv, ast.Name) and recv.id == selfname:
            classes = concrete_subclasses(prog, fi.cls) or [fi.cls]
            mode = "self"
        elif isinstance(recv, ast.Name) and recv.id in narrowed:
            classes = concrete_subclasses(prog, fi.cls) or [fi.cls]
            mode = "self"
        else:
            continue
        if x.attr.startswith("__") and x.attr.endswith("__"):
            continue
        if mode == "self" and len(classes) > 1:
            classes = [c for c in classes if c is fi.cls or runs_on(prog, fi, c)] or [fi.cls]
        lacking = [c for c in classes if x.attr not in prog.class_attr_names(c)]
        if lacking and len(lacking) == len(classes) or (mode == "self" and lacking):
            key = (unparse(recv), x.attr)
            if key in seen:
                continue
            seen.add(key)
            hits.append((x, unparse(recv), x.attr, lacking))
    return hits


def _signature(fi: FuncInfo, *, bound: bool):
    a = fi.node.args
    pos = [p.arg for p in [*a.posonlyargs, *a.args]]
    if bound and pos:
        pos = pos[1:]
    kwonly = [p.arg for p in a.kwonlyargs]
    n_defaults = len(a.defaults)
    required_pos = pos[: len(pos) - n_defaults] if n_defaults else list(pos)
    required_kw = [p.arg for p, d in zip(a.kwonlyargs, a.kw_defaults) if d is None]
    posonly = [p.arg for p in a.posonlyargs][(1 if bound else 0) :]
    return dict(pos=pos, kwonly=kwonly, vararg=a.vararg is not None, kwarg=a.kwarg is not None, required_pos=required_pos, required_kw=required_kw, posonly=posonly)


def callee_signatures(prog: Program, fi: FuncInfo, call: ast.Call):
    """[(label, signature)] for precisely resolved in-repo callees; `type(self)(…)` and `cls(…)`
    expand to all concrete subclasses."""
    f = call.func
    out = []
    classes: list[ClassInfo] = []
    if isinstance(f, ast.Call) and isinstance(f.func, ast.Name) and f.func.id == "type" and len(f.args) == 1 and fi.cls is not None:
        a = f.args[0]
        if isinstance(a, ast.Name) and a.id == (fi.param_names() or [None])[0]:
            classes = concrete_subclasses(prog, fi.cls) or [fi.cls]
    elif isinstance(f, ast.Name) and fi.is_classmethod and fi.param_names() and f.id == fi.param_names()[0] and fi.cls is not None:
        classes = concrete_subclasses(prog, fi.cls) or [fi.cls]
    if classes:
        for c in classes:
            init = prog.find_method(c, "__init__")
            if init is not None:
                out.append((f"{c.name}.__init__", _signature(init, bound=True)))
        return out
    tg = prog.resolve_call(fi, call)
    if not tg.precise:
        return out
    for t in tg.targets:
        if isinstance(t, ClassInfo):
            if t.is_dataclass:
                continue
            init = prog.find_method(t, "__init__")
            if init is not None:
                out.append((f"{t.name}.__init__", _signature(init, bound=True)))
        elif isinstance(t, FuncInfo):
            if any(d not in ("classmethod", "staticmethod", "property", "abstractmethod", "abc.abstractmethod") for d in t.decorators()):
                continue  # decorated: signature may be changed
            bound = t.cls is not None and not t.is_staticmethod
            # Class.method(self, …) called through the class: not bound
            if bound and isinstance(f, ast.Attribute):
                env = prog.func_env(fi)
                bt = env.type_of(f.value)
                if any(x[0] == "type" for x in bt) and not t.is_classmethod:
                    bound = False
            out.append((t.short, _signature(t, bound=bound)))
    return out


def bad_arguments(prog: Program, fi: FuncInfo, call: ast.Call):
    """[(label, problem)] for keyword names / positional counts the callee does not accept."""
    probs = []
    has_star = any(isinstance(a, ast.Starred) for a in call.args)
    has_dstar = any(k.arg is None for k in call.keywords)
    npos = len([a for a in call.args if not isinstance(a, ast.Starred)])
    for label, sig in callee_signatures(prog, fi, call):
        for k in call.keywords:
            if k.arg is None:
                continue
            if k.arg not in sig["pos"] and k.arg not in sig["kwonly"] and not sig["kwarg"]:
                probs.append((label, f"unexpected keyword argument '{k.arg}'"))
            if k.arg in sig["posonly"]:
                probs.append((label, f"positional-only parameter '{k.arg}' passed by keyword"))
        if not sig["vararg"] and npos > len(sig["pos"]):
            probs.append((label, f"{npos} positional arguments but only {len(sig['pos'])} accepted"))
        if not has_star and not has_dstar:
            given = set(sig["pos"][:npos]) | {k.arg for k in call.keywords if k.arg}
            miss = [p for p in sig["required_pos"] if p not in given] + [p for p in sig["required_kw"] if p not in given]
            if miss:
                probs.append((label, f"missing required argument(s) {miss}"))
    return probs
