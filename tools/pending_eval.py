#!/venv/bin/python
"""Development helper: run every claimed check on the refactoring patches that are still pending (selftest/refactors/pending/<name>/patch.diff —
behaviour-preserving rewrites by independent sub-agents on which some check still raised a false alarm or lost its anchor). A patch moves to
selftest/refactors/patches/ (where the self-validation asserts silence) once every check is silent on it.

  pending_eval.py [prefix]        evaluate (scratch copies under a fresh mkdtemp, removed afterwards)
  pending_eval.py --promote       move the patches that are silent on all checks to selftest/refactors/patches/
"""
import os
import shutil
import sys
from concurrent.futures import ThreadPoolExecutor

VERIF = os.path.dirname(os.path.dirname(os.path.abspath(__file__)))
sys.path.insert(0, VERIF)
from yawsa import selftest  # noqa: E402


def main() -> None:
    promote = "--promote" in sys.argv
    prefix = next((a for a in sys.argv[1:] if not a.startswith("--")), "")
    pend = os.path.join(VERIF, "selftest", "refactors", "pending")
    names = sorted(n for n in os.listdir(pend) if n.startswith(prefix) and os.path.isfile(os.path.join(pend, n, "patch.diff")))
    vs = [{"id": f"pending-{n}", "kind": "refactor", "properties": list(selftest.ALL_PROPS), "patch": os.path.join(pend, n, "patch.diff"), "source": "pending"} for n in names]
    with ThreadPoolExecutor(14) as ex:
        res = list(ex.map(lambda v: selftest.run_variant("/repo", v), vs))
    ok = 0
    for n, r in sorted(zip(names, res)):
        print(r["status"], n, r.get("detail", "")[:1200])
        if r["status"] == "ok":
            ok += 1
            if promote:
                shutil.move(os.path.join(pend, n), os.path.join(VERIF, "selftest", "refactors", "patches", n))
    print(f"{ok}/{len(names)} silent" + (" (promoted)" if promote else ""))


if __name__ == "__main__":
    main()
