import numpy as np
from yaw.cosmology import CustomCosmology
from yaw.config import Configuration
class MyCosmo(CustomCosmology):
    def comoving_distance(self, z): return 3000.0 * np.asarray(z)
    def angular_diameter_distance(self, z): return 3000.0 * np.asarray(z) / (1 + np.asarray(z))
try:
    c = Configuration.create(rmin=100, rmax=1000, zmin=0.1, zmax=1.0, num_bins=3, cosmology=MyCosmo())
    print("ok", type(c.cosmology).__name__)
    raise SystemExit(0)
except TypeError as e:
    print("TypeError:", e); raise SystemExit(1)
